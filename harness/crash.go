package main

// C08 / C10 — crash and power-loss recovery.
//
// C08: a workload (transactions, write batches, memtable rotations, flushes, background
// compactions, value-log values, value-log GC) runs in a CHILD PROCESS (this binary re-executed
// with -mode child) which is killed abruptly: SIGKILL from the parent at a random moment, or
// os.Exit from inside the n-th persistence hook (verifPoint "persist.*" call sites in db.go,
// value.go, levels.go, manifest.go, dir_unix.go).  The child writes an event log OUTSIDE the
// database directory (hook hits, "ISSUE i" before a commit is sent, "ACK i" after Commit
// returned nil).  A second child (-mode probe) runs the real badger.Open on the directory and
// dumps every stored version; the parent evaluates the property on that dump.
//
// C10: the child additionally copies a file at every hook that follows an fsync/msync of it
// and records the directory listing at every directory fsync.  For a cut point i the parent
// MATERIALISES the power-loss image: names as of the last directory fsync <= i, contents as of
// the file's last sync <= i, never-synced files empty; then probes it with the real Open.
//
// Correspondence (coq/C): the hook log of first-session workloads without compaction is
// translated into the protocol events of Persist.v; the model must accept the trace
// (protocol relation) and predict Open's outcome and the recovered entry set.

import (
	"bufio"
	"encoding/json"
	"fmt"
	"io"
	"math/rand"
	"os"
	"os/exec"
	"path/filepath"
	"sort"
	"strconv"
	"strings"
	"sync"
	"sync/atomic"
	"syscall"
	"time"

	badger "github.com/dgraph-io/badger/v4"
)

func init() {
	register("C08", runC08)
	register("C10", runC10)
}

// ---------------------------------------------------------------------------------------
// workload description (shared by child, probe and parent)

type crashSpec struct {
	Dir      string
	EventLog string
	SnapDir  string
	Sync     bool  // Options.SyncWrites
	NCommits int   // commits of this session
	First    int   // index of the first commit of this session (1-based)
	MemSize  int64 // MemTableSize (small: forces rotations + flushes)
	NumComp  int   // NumCompactors (0 or >= 2)
	Batch    bool  // commits go through WriteBatch (async commit path)
	BigEvery int   // every BigEvery-th commit writes a value-log value (0 = never)
	BigSize  int
	DelEvery int // every DelEvery-th commit deletes an older unique key (0 = never)
	GC       bool
	ExitAt   int  // os.Exit at the n-th persist.* hook hit (0 = never)
	ExitName string // or: os.Exit at the ExitOcc-th hit of this hook
	ExitOcc  int
	Snap     bool // copy synced files (power-loss images)
	Reopen   bool // the directory holds an earlier (crashed) session
	Managed  bool // managed mode: every commit is a managed write batch of 3 entries with per-entry versions
	WaitFlush    bool // after the last commit wait (up to 20 s) until at least one flush has been recorded
	CompactEvery int // every k-th commit is followed by an explicit compaction (production doCompact) of L0, every 2k-th also of L1
	Conc         int // > 1: that many goroutines commit concurrently (several requests per writer call); used for the sync-claims oracle only
}

type cwrite struct {
	Key string
	Val string // "" = delete
	Big bool
}

// the writes of commit i (deterministic; every value names its commit)
func crashCommit(s *crashSpec, i int) []cwrite {
	v := fmt.Sprintf("v%06d", i)
	ws := []cwrite{{"s0", v, false}, {"s1", v, false}, {"s2", v, false}}
	if s.BigEvery > 0 && i%s.BigEvery == 0 {
		pad := strings.Repeat(fmt.Sprintf("%06d.", i), s.BigSize/7+1)[:s.BigSize]
		ws = append(ws, cwrite{fmt.Sprintf("u%06d", i), "B" + v + pad, true})
	} else {
		ws = append(ws, cwrite{fmt.Sprintf("u%06d", i), "w" + v, false})
	}
	if s.DelEvery > 0 && i%s.DelEvery == 0 && i > 2 {
		ws = append(ws, cwrite{fmt.Sprintf("u%06d", i-2), "", false})
	}
	return ws
}

func crashOptions(s *crashSpec) badger.Options {
	opt := badger.DefaultOptions(s.Dir).WithLoggingLevel(badger.ERROR).WithSyncWrites(s.Sync).
		WithMemTableSize(s.MemSize).WithValueThreshold(32).WithValueLogFileSize(1 << 20).
		WithNumCompactors(s.NumComp).WithNumMemtables(4).WithBlockSize(256).
		WithBaseTableSize(8 << 10).WithBaseLevelSize(32 << 10).WithLevelSizeMultiplier(2).
		WithMaxLevels(4).WithNumLevelZeroTables(2).WithNumLevelZeroTablesStall(200).
		WithMetricsEnabled(false).WithCompactL0OnClose(false).WithDetectConflicts(false).
		WithBlockCacheSize(1 << 20).WithIndexCacheSize(1 << 20)
	return opt
}

// ---------------------------------------------------------------------------------------
// child: runs the workload, logs events, dies abruptly

type crashLogger struct {
	mu   sync.Mutex
	f    *os.File
	seq  int
	hits int
	occ  int
	nFlushDone atomic.Int32
	spec *crashSpec
	voff map[uint64]uint64 // vlog fid -> write offset after the last request
	db   atomic.Pointer[badger.DB]
	open bool // Open returned
}

func (l *crashLogger) line(format string, a ...interface{}) int {
	l.seq++
	fmt.Fprintf(l.f, "%d "+format+"\n", append([]interface{}{l.seq}, a...)...)
	return l.seq
}

func (l *crashLogger) listing() string {
	ents, err := os.ReadDir(l.spec.Dir)
	if err != nil {
		return "ERR"
	}
	var out []string
	for _, e := range ents {
		fi, err := e.Info()
		if err != nil {
			continue
		}
		out = append(out, fmt.Sprintf("%s:%d", e.Name(), fi.Size()))
	}
	return strings.Join(out, ",")
}

func crashCopyFile(src, dst string, limit int64) error {
	in, err := os.Open(src)
	if err != nil {
		return err
	}
	defer in.Close()
	out, err := os.Create(dst)
	if err != nil {
		return err
	}
	defer out.Close()
	if limit >= 0 {
		_, err = io.CopyN(out, in, limit)
		if err == io.EOF {
			err = nil
		}
		return err
	}
	_, err = io.Copy(out, in)
	return err
}

func (l *crashLogger) snap(seq int, name string) { l.snapN(seq, name, -1) }

// copies the first limit bytes (-1: all) of a file that has just been synced
func (l *crashLogger) snapN(seq int, name string, limit int64) {
	if !l.spec.Snap || name == "" {
		return
	}
	if err := crashCopyFile(filepath.Join(l.spec.Dir, name), filepath.Join(l.spec.SnapDir, fmt.Sprintf("%d_%s", seq, name)), limit); err != nil {
		l.line("SNAPERR %s %v", name, err)
	}
}

// the WAL the writer is appending to: the highest .mem in the directory
func (l *crashLogger) curWal() string {
	ents, _ := os.ReadDir(l.spec.Dir)
	best := ""
	for _, e := range ents {
		if strings.HasSuffix(e.Name(), ".mem") && e.Name() > best {
			best = e.Name()
		}
	}
	return best
}

// logs key@version of every entry of a table file that has just been built
func (l *crashLogger) tableLine(id uint64) {
	db := l.db.Load()
	if db == nil {
		return
	}
	ks, vs, err := db.VerifTableKeys(id)
	if err != nil {
		l.line("TABLEERR %d %v", id, err)
		return
	}
	var sb strings.Builder
	for i := range ks {
		fmt.Fprintf(&sb, " %s@%d", ks[i], vs[i])
	}
	l.line("TABLE %d%s", id, sb.String())
}

func (l *crashLogger) point(name string, args ...uint64) {
	if !strings.HasPrefix(name, "persist.") {
		return
	}
	l.mu.Lock()
	defer l.mu.Unlock()
	l.hits++
	as := make([]string, len(args))
	for i, a := range args {
		as[i] = strconv.FormatUint(a, 10)
	}
	seq := l.line("H %s %s", name, strings.Join(as, " "))
	switch name {
	case "persist.vlog.written":
		l.voff[args[0]] = args[1]
	case "persist.vlog.synced":
		l.snapN(seq, fmt.Sprintf("%06d.vlog", args[0]), int64(l.voff[args[0]])+64)
	case "persist.vlog.created":
		if l.spec.Sync && args[0] > 1 {
			l.snapN(seq, fmt.Sprintf("%06d.vlog", args[0]-1), int64(l.voff[args[0]-1])+64)
		}
		l.line("LS %s", l.listing())
	case "persist.wal.request-done":
		if l.spec.Sync {
			l.snap(seq, l.curWal())
		}
	case "persist.flush.manifest":
		l.nFlushDone.Add(1)
	case "persist.flush.table":
		l.snap(seq, fmt.Sprintf("%06d.sst", args[0]))
		l.tableLine(args[0])
	case "persist.manifest.done":
		l.snap(seq, "MANIFEST")
	case "persist.syncdir.done", "persist.flush.wal-released", "persist.compact.installed",
		"persist.mem.rotated", "persist.compact.built":
		l.line("LS %s", l.listing())
	}
	if l.spec.ExitName == name {
		l.occ++
	}
	if (l.spec.ExitAt > 0 && l.hits == l.spec.ExitAt) || (l.spec.ExitName == name && l.occ == l.spec.ExitOcc) {
		l.line("EXIT %d", l.hits)
		os.Exit(77) // abrupt: no deferred functions, no Close; the page cache keeps every store
	}
}

func crashChild(c *Ctx) error {
	js, err := os.ReadFile(c.Replay)
	if err != nil {
		return err
	}
	var s crashSpec
	if err := json.Unmarshal(js, &s); err != nil {
		return err
	}
	f, err := os.OpenFile(s.EventLog, os.O_CREATE|os.O_WRONLY|os.O_APPEND, 0o644)
	if err != nil {
		return err
	}
	l := &crashLogger{f: f, spec: &s, voff: map[uint64]uint64{}}
	var newTables []string
	badger.VerifSetController(&badger.VerifController{
		Point: l.point,
		NewTables: func(info *badger.VerifCompactInfo) {
			l.mu.Lock()
			defer l.mu.Unlock()
			newTables = newTables[:0]
			for _, id := range info.New {
				newTables = append(newTables, fmt.Sprintf("%d", id))
			}
			seq := l.line("COMPACT %d %d top=%v bot=%v new=%v", info.ThisLevel, info.NextLevel, info.Top, info.Bot, info.New)
			for _, id := range info.New {
				l.snap(seq, fmt.Sprintf("%06d.sst", id))
				l.tableLine(id)
			}
		},
	})
	// a second ground truth for the MANIFEST fsync of addChanges, independent of the hook
	// placement and of strace: manifest.go's package variable syncFunc is wrapped; the callback
	// runs only when the production code really calls it (never from inside a hook)
	badger.VerifWrapManifestSync(func(err error) {
		l.mu.Lock()
		l.line("MSYNC %v", err == nil)
		l.mu.Unlock()
	})
	l.mu.Lock()
	l.line("SESSION reopen=%v first=%d", s.Reopen, s.First)
	l.mu.Unlock()
	var db *badger.DB
	if s.Managed {
		db, err = badger.OpenManaged(crashOptions(&s))
	} else {
		db, err = badger.Open(crashOptions(&s))
	}
	if err != nil {
		l.mu.Lock()
		l.line("OPENERR %v", err)
		l.mu.Unlock()
		fmt.Printf("OPENERR %v\n", err)
		os.Exit(3)
	}
	l.db.Store(db)
	l.mu.Lock()
	seq := l.line("OPEN-DONE")
	l.line("LS %s", l.listing())
	if s.Snap {
		// what Open itself synced: MANIFEST and KEYREGISTRY (fsync + rename + directory fsync)
		l.snap(seq, "MANIFEST")
		l.snap(seq, "KEYREGISTRY")
	}
	l.mu.Unlock()
	if s.Conc > 1 {
		// concurrent committers: doWrites hands several requests to one writeRequests call; half of
		// the commits carry a value-log value, so calls whose LAST request has none are common
		var next atomic.Int64
		next.Store(int64(s.First) - 1)
		var cwg sync.WaitGroup
		for g := 0; g < s.Conc; g++ {
			cwg.Add(1)
			go func() {
				defer cwg.Done()
				for {
					i := int(next.Add(1))
					if i >= s.First+s.NCommits {
						return
					}
					ws := crashCommit(&s, i)
					l.mu.Lock()
					l.line("ISSUE %d", i)
					l.mu.Unlock()
					cerr := db.Update(func(txn *badger.Txn) error {
						for _, w := range ws {
							if w.Val == "" {
								continue
							}
							if e := txn.Set([]byte(w.Key), []byte(w.Val)); e != nil {
								return e
							}
						}
						return nil
					})
					l.mu.Lock()
					if cerr == nil {
						l.line("ACK %d", i)
					} else {
						l.line("COMMITERR %d %v", i, cerr)
					}
					l.mu.Unlock()
				}
			}()
		}
		cwg.Wait()
		s.NCommits = 0 // the sequential loop below does nothing
	}
	for i := s.First; i < s.First+s.NCommits; i++ {
		ws := crashCommit(&s, i)
		l.mu.Lock()
		l.line("ISSUE %d", i)
		l.mu.Unlock()
		var cerr error
		if s.Managed {
			// one write batch = one request of three entries carrying their own versions:
			// txn.go commitAndSend writes such a request WITHOUT transaction markers
			wb := db.NewManagedWriteBatch()
			for j := 0; j < 3 && cerr == nil; j++ {
				cerr = wb.SetEntryAt(badger.NewEntry([]byte(fmt.Sprintf("m%06d_%d", i, j)), []byte(fmt.Sprintf("v%06d", i))), uint64(10*i+j))
			}
			if cerr == nil {
				cerr = wb.Flush()
			} else {
				wb.Cancel()
			}
		} else if s.Batch {
			wb := db.NewWriteBatch()
			for _, w := range ws {
				if w.Val == "" {
					cerr = wb.Delete([]byte(w.Key))
				} else {
					cerr = wb.Set([]byte(w.Key), []byte(w.Val))
				}
				if cerr != nil {
					break
				}
			}
			if cerr == nil {
				cerr = wb.Flush()
			} else {
				wb.Cancel()
			}
		} else {
			cerr = db.Update(func(txn *badger.Txn) error {
				for _, w := range ws {
					var e error
					if w.Val == "" {
						e = txn.Delete([]byte(w.Key))
					} else {
						e = txn.Set([]byte(w.Key), []byte(w.Val))
					}
					if e != nil {
						return e
					}
				}
				return nil
			})
		}
		l.mu.Lock()
		if cerr == nil {
			l.line("ACK %d", i)
		} else {
			l.line("COMMITERR %d %v", i, cerr)
		}
		l.mu.Unlock()
		if s.CompactEvery > 0 && i%s.CompactEvery == 0 {
			cerr := db.VerifCompact(0, false, nil)
			l.mu.Lock()
			l.line("COMPACTCALL 0 %v", cerr)
			l.mu.Unlock()
			if i%(2*s.CompactEvery) == 0 {
				cerr = db.VerifCompact(1, false, nil)
				l.mu.Lock()
				l.line("COMPACTCALL 1 %v", cerr)
				l.mu.Unlock()
			}
		}
		if s.GC && i%25 == 0 {
			gerr := db.RunValueLogGC(0.01)
			l.mu.Lock()
			l.line("GC %v", gerr)
			l.mu.Unlock()
		}
	}
	// let background flushes / compactions settle a little, then die without Close
	time.Sleep(30 * time.Millisecond)
	for w := 0; s.WaitFlush && l.nFlushDone.Load() == 0 && w < 2000; w++ {
		time.Sleep(10 * time.Millisecond)
	}
	l.mu.Lock()
	l.line("END")
	os.Exit(0)
	return nil
}

// ---------------------------------------------------------------------------------------
// probe: the real Open on a (crashed / materialised) directory, dump of every stored version

type probeEntry struct {
	Key     string
	Version uint64
	Val     string // "" with Deleted, or the value; "!ERR ..." when the value cannot be read
	Deleted bool
}

type probeOut struct {
	OpenErr  string
	Entries  []probeEntry
	Gets     map[string]string // latest visible value per key ("" = not found, "!ERR ..." = read error)
	MaxVer   uint64
	Open2Err string // a second Open after a failed first one
}

func crashProbe(c *Ctx) error {
	js, err := os.ReadFile(c.Replay)
	if err != nil {
		return err
	}
	var s crashSpec
	if err := json.Unmarshal(js, &s); err != nil {
		return err
	}
	var out probeOut
	openf := badger.Open
	if s.Managed {
		openf = badger.OpenManaged
	}
	db, err := openf(crashOptions(&s))
	if err != nil {
		out.OpenErr = err.Error()
		db2, err2 := openf(crashOptions(&s))
		if err2 != nil {
			out.Open2Err = err2.Error()
		} else {
			out.Open2Err = "ok"
			db2.Close()
		}
		js, _ := json.Marshal(out)
		fmt.Println("PROBE " + string(js))
		return nil
	}
	out.Gets = map[string]string{}
	keys := map[string]bool{}
	view := db.View
	if s.Managed {
		view = func(fn func(txn *badger.Txn) error) error {
			txn := db.NewTransactionAt(1<<62, false)
			defer txn.Discard()
			return fn(txn)
		}
	}
	err = view(func(txn *badger.Txn) error {
		it := txn.NewIterator(badger.IteratorOptions{AllVersions: true, PrefetchValues: false})
		defer it.Close()
		for it.Rewind(); it.Valid(); it.Next() {
			item := it.Item()
			pe := probeEntry{Key: string(item.KeyCopy(nil)), Version: item.Version(), Deleted: item.IsDeletedOrExpired()}
			if !pe.Deleted {
				v, verr := item.ValueCopy(nil)
				if verr != nil {
					pe.Val = "!ERR " + verr.Error()
				} else {
					pe.Val = string(v)
				}
			}
			if pe.Version > out.MaxVer {
				out.MaxVer = pe.Version
			}
			keys[pe.Key] = true
			out.Entries = append(out.Entries, pe)
		}
		return nil
	})
	if err != nil {
		out.OpenErr = "iterate: " + err.Error()
	}
	view(func(txn *badger.Txn) error {
		for k := range keys {
			item, gerr := txn.Get([]byte(k))
			switch {
			case gerr == badger.ErrKeyNotFound:
				out.Gets[k] = ""
			case gerr != nil:
				out.Gets[k] = "!ERR " + gerr.Error()
			default:
				v, verr := item.ValueCopy(nil)
				if verr != nil {
					out.Gets[k] = "!ERR " + verr.Error()
				} else {
					out.Gets[k] = string(v)
				}
			}
		}
		return nil
	})
	js2, _ := json.Marshal(out)
	fmt.Println("PROBE " + string(js2))
	os.Exit(0) // no Close: the probe must not change what a later session sees more than Open did
	return nil
}

// ---------------------------------------------------------------------------------------
// parent side helpers

type crashEnv struct {
	c       *Ctx
	scratch string
	seq     int
	strace  string // when set: the child runs under strace, its output goes to this file (strace.go)
}

func (e *crashEnv) newDir(tag string) string {
	e.seq++
	d := filepath.Join(e.scratch, fmt.Sprintf("%s_%d", tag, e.seq))
	os.RemoveAll(d)
	os.MkdirAll(d, 0o755)
	return d
}

func crashWriteSpec(s *crashSpec, path string) {
	js, _ := json.Marshal(s)
	os.WriteFile(path, js, 0o644)
}

// runs the child; killAfter > 0: SIGKILL after that delay. Returns exit description.
func (e *crashEnv) runChild(s *crashSpec, killAfter time.Duration) string {
	sp := filepath.Join(e.scratch, fmt.Sprintf("spec_%d.json", e.seq))
	crashWriteSpec(s, sp)
	defer os.Remove(sp)
	od := filepath.Join(e.scratch, "childout")
	argv := []string{os.Args[0], e.c.Prop, "-mode", "child", "-replay", sp, "-out", od, "-n", "0"}
	cmd := exec.Command(argv[0], argv[1:]...)
	if e.strace != "" {
		cmd = straceCommand(e.strace, argv)
	}
	var so strings.Builder
	cmd.Stdout, cmd.Stderr = &so, &so
	if err := cmd.Start(); err != nil {
		return "start: " + err.Error()
	}
	done := make(chan error, 1)
	go func() { done <- cmd.Wait() }()
	if killAfter > 0 {
		select {
		case err := <-done:
			return fmt.Sprintf("exited before kill: %v %s", err, crashTail(so.String()))
		case <-time.After(killAfter):
			cmd.Process.Signal(syscall.SIGKILL)
			<-done
			return "killed"
		}
	}
	select {
	case err := <-done:
		if err == nil {
			return "exit 0"
		}
		return fmt.Sprintf("%v %s", err, crashTail(so.String()))
	case <-time.After(120 * time.Second):
		cmd.Process.Signal(syscall.SIGKILL)
		<-done
		return "timeout"
	}
}

func crashTail(s string) string {
	s = strings.TrimSpace(s)
	if len(s) > 300 {
		s = s[len(s)-300:]
	}
	return s
}

func (e *crashEnv) probe(s *crashSpec) (*probeOut, string) {
	sp := filepath.Join(e.scratch, fmt.Sprintf("probe_%d.json", e.seq))
	crashWriteSpec(s, sp)
	defer os.Remove(sp)
	od := filepath.Join(e.scratch, "childout")
	cmd := exec.Command(os.Args[0], e.c.Prop, "-mode", "probe", "-replay", sp, "-out", od, "-n", "0")
	var so, se strings.Builder
	cmd.Stdout, cmd.Stderr = &so, &se
	done := make(chan error, 1)
	if err := cmd.Start(); err != nil {
		return nil, "start: " + err.Error()
	}
	go func() { done <- cmd.Wait() }()
	select {
	case <-done:
	case <-time.After(120 * time.Second):
		cmd.Process.Signal(syscall.SIGKILL)
		<-done
		return nil, "probe timeout"
	}
	for _, l := range strings.Split(so.String(), "\n") {
		if strings.HasPrefix(l, "PROBE ") {
			var po probeOut
			if err := json.Unmarshal([]byte(l[6:]), &po); err != nil {
				return nil, "probe json: " + err.Error()
			}
			return &po, ""
		}
	}
	return nil, "probe died: " + crashTail(so.String()+" "+se.String())
}

// ---- event log ----

type crashEvent struct {
	Seq  int
	Kind string // H, ISSUE, ACK, LS, OPEN-DONE, EXIT, END, COMPACT, SESSION, ...
	Name string // hook name for H
	Args []uint64
	Rest string
}

func crashReadLog(path string) []crashEvent {
	f, err := os.Open(path)
	if err != nil {
		return nil
	}
	defer f.Close()
	var out []crashEvent
	sc := bufio.NewScanner(f)
	sc.Buffer(make([]byte, 1<<20), 1<<24)
	for sc.Scan() {
		parts := strings.SplitN(sc.Text(), " ", 3)
		if len(parts) < 2 {
			continue
		}
		seq, err := strconv.Atoi(parts[0])
		if err != nil {
			continue
		}
		ev := crashEvent{Seq: seq, Kind: parts[1]}
		if len(parts) == 3 {
			ev.Rest = parts[2]
		}
		if ev.Kind == "H" {
			fs := strings.Fields(ev.Rest)
			if len(fs) > 0 {
				ev.Name = fs[0]
				for _, a := range fs[1:] {
					x, _ := strconv.ParseUint(a, 10, 64)
					ev.Args = append(ev.Args, x)
				}
			}
		}
		if ev.Kind == "ISSUE" || ev.Kind == "ACK" {
			x, _ := strconv.ParseUint(strings.TrimSpace(ev.Rest), 10, 64)
			ev.Args = []uint64{x}
		}
		out = append(out, ev)
	}
	return out
}

func crashAcked(evs []crashEvent, upto int) (acked, issued int) {
	for _, ev := range evs {
		if upto > 0 && ev.Seq > upto {
			break
		}
		switch ev.Kind {
		case "ACK":
			if int(ev.Args[0]) > acked {
				acked = int(ev.Args[0])
			}
		case "ISSUE":
			if int(ev.Args[0]) > issued {
				issued = int(ev.Args[0])
			}
		}
	}
	return
}

// ---------------------------------------------------------------------------------------
// the property oracle: the Go twin of Recover.v `refines` / Crash.v `prefix_ok`

type crashVerdict struct {
	N        int // the commit prefix the recovered content corresponds to
	Sig      string
	What     string
	Versions map[int]uint64 // commit index -> version observed
}

func crashCommitOfValue(v string) int {
	// values are "vNNNNNN", "wvNNNNNN", "BvNNNNNN<pad>"
	i := strings.Index(v, "v")
	if i < 0 || len(v) < i+7 {
		return -1
	}
	n, err := strconv.Atoi(v[i+1 : i+7])
	if err != nil {
		return -1
	}
	return n
}

// spec: the workload; total: highest commit index issued over all sessions; acked: highest
// acknowledged index. po: the probe's dump.
func crashOracle(s *crashSpec, total, acked int, po *probeOut) crashVerdict {
	v := crashVerdict{Versions: map[int]uint64{}}
	type kv struct {
		key string
		ver uint64
	}
	present := map[kv]probeEntry{}
	byKey := map[string][]probeEntry{}
	for i, e := range po.Entries {
		// a stored value that is not the one any commit wrote for this key (e.g. an empty value
		// read through a pointer into a missing value-log file) counts as unreadable
		if !e.Deleted && !strings.HasPrefix(e.Val, "!ERR") {
			ci := crashCommitOfValue(e.Val)
			okv := false
			if ci >= 1 && ci <= total {
				for _, w := range crashCommit(s, ci) {
					if w.Key == e.Key && w.Val == e.Val {
						okv = true
					}
				}
			}
			if !okv && (strings.HasPrefix(e.Key, "s") || strings.HasPrefix(e.Key, "u")) && (ci < 1 || ci > total) {
				e.Val = "!ERR value reads as " + strconv.Quote(crashShort(e.Val))
				po.Entries[i] = e
			}
		}
		present[kv{e.Key, e.Version}] = e
		byKey[e.Key] = append(byKey[e.Key], e)
		if strings.HasPrefix(e.Val, "!ERR") {
			v.Sig, v.What = "c08-value-unreadable", fmt.Sprintf("key %s@%d: %s", e.Key, e.Version, e.Val)
		}
	}
	// version of each commit: from its s0 write (every commit writes s0 := vNNNNNN)
	for _, e := range byKey["s0"] {
		if !e.Deleted {
			if ci := crashCommitOfValue(e.Val); ci > 0 {
				v.Versions[ci] = e.Version
			}
		}
	}
	// entries identify their commit by value; tombstones by version
	verCommit := map[uint64]int{}
	for ci, ver := range v.Versions {
		verCommit[ver] = ci
	}
	nmax := 0
	foreign := ""
	for _, e := range po.Entries {
		ci := -1
		if e.Deleted {
			if c2, ok := verCommit[e.Version]; ok {
				ci = c2
			}
		} else if !strings.HasPrefix(e.Val, "!ERR") {
			ci = crashCommitOfValue(e.Val)
		} else if c2, ok := verCommit[e.Version]; ok {
			ci = c2
		}
		if ci < 1 || ci > total {
			if !e.Deleted || ci != -1 {
				foreign = fmt.Sprintf("%s@%d=%q", e.Key, e.Version, crashShort(e.Val))
			}
			// a tombstone whose commit lost its s0 version to compaction cannot be attributed: skip
			continue
		}
		if ci > nmax {
			nmax = ci
		}
		// every entry of one commit carries one version
		if ver, ok := v.Versions[ci]; ok && ver != e.Version && !e.Deleted {
			v.Sig, v.What = "c08-commit-versions-differ", fmt.Sprintf("commit %d has versions %d and %d", ci, ver, e.Version)
		} else if !ok && !e.Deleted {
			v.Versions[ci] = e.Version
			verCommit[e.Version] = ci
		}
	}
	v.N = nmax
	if v.Sig != "" {
		return v
	}
	if foreign != "" {
		v.Sig, v.What = "c08-foreign-entry", "stored entry written by no issued commit: "+foreign
		return v
	}
	// (b) every write of commits 1..nmax is stored, or superseded by a stored newer version
	for ci := 1; ci <= nmax; ci++ {
		ws := crashCommit(s, ci)
		missing, found := []string{}, 0
		for _, w := range ws {
			ok := false
			newer := false
			for _, e := range byKey[w.Key] {
				ec := -1
				if e.Deleted {
					ec = verCommit[e.Version]
				} else {
					ec = crashCommitOfValue(e.Val)
				}
				if ec == ci && ((w.Val == "" && e.Deleted) || (w.Val != "" && !e.Deleted && e.Val == w.Val)) {
					ok = true
				}
				if ec > ci {
					newer = true
				}
			}
			// a deletion by a later commit of the prefix also supersedes: compaction may drop the
			// tombstone itself at the bottom level (C12); that the key then reads as absent is
			// checked below on the visible state
			for cj := ci + 1; cj <= nmax && !newer; cj++ {
				for _, w2 := range crashCommit(s, cj) {
					if w2.Key == w.Key && w2.Val == "" {
						newer = true
					}
				}
			}
			if ok {
				found++
			} else if !newer && w.Val != "" {
				missing = append(missing, w.Key)
			}
		}
		if len(missing) > 0 {
			if found > 0 {
				v.Sig, v.What = "c08-partial-transaction-visible", fmt.Sprintf("commit %d: %d of %d writes stored, missing (not superseded): %v; newest commit stored: %d", ci, found, len(ws), missing, nmax)
			} else {
				v.Sig, v.What = "c08-not-a-commit-prefix", fmt.Sprintf("commit %d is missing while commit %d is stored (commits up to %d had been acknowledged)", ci, nmax, acked)
			}
			return v
		}
	}
	// visible state (Get of every key) = state after applying commits 1..nmax in order
	want := map[string]string{}
	for ci := 1; ci <= nmax; ci++ {
		for _, w := range crashCommit(s, ci) {
			want[w.Key] = w.Val
		}
	}
	for k, w := range want {
		if g, ok := po.Gets[k]; ok && g != w || (!ok && w != "") {
			v.Sig, v.What = "c08-visible-state-not-prefix", fmt.Sprintf("Get(%s) = %q, the prefix of %d commits has %q", k, crashShort(po.Gets[k]), nmax, crashShort(w))
			return v
		}
	}
	if acked > nmax {
		v.Sig, v.What = "c08-acked-commit-lost", fmt.Sprintf("commit %d was acknowledged, the recovered state is the prefix of %d commits", acked, nmax)
	}
	return v
}

func crashShort(s string) string {
	if len(s) > 24 {
		return s[:24] + "…"
	}
	return s
}

func crashSortedKeys(m map[string]int) []string {
	var ks []string
	for k := range m {
		ks = append(ks, k)
	}
	sort.Strings(ks)
	return ks
}

var _ = rand.Int

func runC08(c *Ctx) error {
	switch c.Mode {
	case "child":
		return crashChild(c)
	case "probe":
		return crashProbe(c)
	}
	return crashRun(c, false)
}

func runC10(c *Ctx) error {
	switch c.Mode {
	case "child":
		return crashChild(c)
	case "probe":
		return crashProbe(c)
	}
	return crashRun(c, true)
}


// ---------------------------------------------------------------------------------------
// hook log -> protocol trace of coq/C/Persist.v (first session, no compaction)

type crashTrace struct {
	evs    []string // Coq pevent terms
	ok     bool     // false: the log contains something the translation does not cover
	why    string
	walOf  map[int]uint64 // commit index -> WAL fid holding its unit
	vlogOf map[int]uint64 // commit index -> vlog fid holding its big value
	kinds  map[string]int
	wals   map[uint64]bool // WAL fids the trace has created and not unlinked
	walcur, vlogcur uint64
	sealedW         uint64 // WALs up to this fid have been handed to the flusher (PSeal emitted)
}

// the crashed directory may be AHEAD of the hook log by the part of a step another goroutine
// performed before blocking at its next hook (the dying hook holds the log mutex): a WAL or
// vlog file already created (z.OpenMmapFile inside newMemTable / createVlogFile) or already
// truncated / unlinked (z.MmapFile.Delete).  These events are read off the directory.
func (t *crashTrace) reconcile(dir string) []string {
	var extra []string
	ents, err := os.ReadDir(dir)
	if err != nil {
		return nil
	}
	seen := map[uint64]bool{}
	for _, en := range ents {
		n := en.Name()
		fi, err := en.Info()
		if err != nil {
			continue
		}
		switch {
		case strings.HasSuffix(n, ".mem"):
			fid, _ := strconv.ParseUint(strings.TrimSuffix(n, ".mem"), 10, 64)
			seen[fid] = true
			if fid > t.walcur {
				if t.sealedW < t.walcur {
					extra = append(extra, "PSeal")
					t.sealedW = t.walcur
				}
				extra = append(extra, fmt.Sprintf("PE (Create (Wal %d))", fid))
				if fi.Size() > 0 {
					extra = append(extra, fmt.Sprintf("PE (Init (Wal %d))", fid))
				}
			} else if fi.Size() == 0 && t.wals[fid] {
				extra = append(extra, fmt.Sprintf("PE (Truncate0 (Wal %d))", fid))
			}
		case strings.HasSuffix(n, ".vlog"):
			fid, _ := strconv.ParseUint(strings.TrimSuffix(n, ".vlog"), 10, 64)
			if fid > t.vlogcur {
				extra = append(extra, fmt.Sprintf("PE (Create (Vlog %d))", fid))
				if fi.Size() > 0 {
					extra = append(extra, fmt.Sprintf("PE (Init (Vlog %d))", fid))
				}
			}
		}
	}
	var gone []uint64
	for fid := range t.wals {
		if !seen[fid] {
			gone = append(gone, fid)
		}
	}
	sort.Slice(gone, func(a, b int) bool { return gone[a] < gone[b] })
	for _, fid := range gone {
		extra = append(extra, fmt.Sprintf("PE (Truncate0 (Wal %d))", fid), fmt.Sprintf("PE (Unlink (Wal %d))", fid))
	}
	return extra
}

func crashKeyID(k string) uint64 {
	if k[0] == 's' {
		return uint64(k[1]-'0') + 1
	}
	n, _ := strconv.Atoi(k[1:])
	return uint64(10 + n)
}

// value id of a write of commit ci: tombstone 0, else ci*10 + position
func crashValID(ci, j int, w cwrite) uint64 {
	if w.Val == "" {
		return 0
	}
	return uint64(ci*10 + j + 1)
}

func crashCE(k string, ver uint64, val uint64) string {
	return fmt.Sprintf("(mkCE %d %d %d)", crashKeyID(k), ver, val)
}

// Ground truth for the sync claims of the hook log (C10).  nil = the hooks are trusted (C08: a
// process kill loses nothing, the sync events do not matter).
//   clean(seq, name): at event seq the file `name` really is durable in its current content;
//   dirSync(seq):     the persist.syncdir.done hook with this seq follows a real directory fsync;
//                     ls = the names durable at that point ("name:size,...").
// Implementations: *straceTruth (strace.go: the system calls of the child), *hookTruth (strace
// unavailable: the hooks are trusted except for the MANIFEST fsync of addChanges, which the
// wrapped syncFunc reports by MSYNC lines).
type crashTruth interface {
	clean(seq int, name string) bool
	dirSync(seq int) (ls string, ok bool)
}

type hookTruth struct {
	evs        []crashEvent
	manifestOK map[int]bool // seq of persist.manifest.done -> syncFunc was really called after the write
}

// every persist.manifest.done that follows a persist.manifest.written (an appended change set)
// needs an MSYNC line in between (addChanges is serialised by appendLock)
func crashManifestSyncs(evs []crashEvent) map[int]bool {
	out := map[int]bool{}
	written, synced := false, false
	for _, ev := range evs {
		switch {
		case ev.Kind == "MSYNC":
			synced = strings.TrimSpace(ev.Rest) == "true"
		case ev.Kind == "H" && ev.Name == "persist.manifest.written":
			written, synced = true, false
		case ev.Kind == "H" && ev.Name == "persist.manifest.done":
			out[ev.Seq] = !written || synced
			written, synced = false, false
		}
	}
	return out
}

func newHookTruth(evs []crashEvent) *hookTruth {
	return &hookTruth{evs: evs, manifestOK: crashManifestSyncs(evs)}
}

func (h *hookTruth) clean(seq int, name string) bool {
	if name == "MANIFEST" {
		if ok, known := h.manifestOK[seq]; known {
			return ok
		}
	}
	return true
}

func (h *hookTruth) dirSync(seq int) (string, bool) {
	for i, ev := range h.evs {
		if ev.Seq == seq && i+1 < len(h.evs) && h.evs[i+1].Kind == "LS" {
			return h.evs[i+1].Rest, true
		}
	}
	return "", true
}

// builds the trace of the events with Seq <= upto (0 = all) after OPEN-DONE.
// version of commit i is assumed to be i (fresh database, sequential commits); the caller
// checks that against the versions the probe reports.
// gt != nil (C10): a SyncFile / SyncDir event is emitted only where the ground truth confirms
// the sync the hook claims, so a trace with a missing sync is a trace WITHOUT that event and the
// protocol guard of Persist.v decides (e.g. Truncate0/Unlink of a WAL needs its table in the
// MANIFEST as of the last MANIFEST fsync; the next change set needs the previous one synced).
func crashBuildTrace(s *crashSpec, evs []crashEvent, upto int, gt crashTruth) *crashTrace {
	clean := func(seq int, name string) bool { return gt == nil || gt.clean(seq, name) }
	curSeq := 0
	var walcurP, vlogcurP func() uint64
	t := &crashTrace{ok: true, walOf: map[int]uint64{}, vlogOf: map[int]uint64{}, kinds: map[string]int{}, wals: map[uint64]bool{1: true}}
	defer func() { t.walcur, t.vlogcur = walcurP(), vlogcurP() }()
	fail := func(w string) { t.ok = false; t.why = w }
	walcur, vlogcur := uint64(1), uint64(1)
	walcurP = func() uint64 { return walcur }
	vlogcurP = func() uint64 { return vlogcur }
	vlogIdx := map[uint64]int{}
	type cellT struct{ ent, ptr string }
	cells := map[int][]cellT{} // request number -> cells
	nVlogWritten, nReqDone := 0, 0
	walUnits := map[uint64][]int{} // WAL fid -> requests completed in it
	flushedUpTo := uint64(0)
	nFlushBegun := uint64(0)
	lastFlushTable := uint64(0)
	opened := false
	emit := func(e string) { t.evs = append(t.evs, e) }
	// a creation hook fires AFTER the file was created (and, with the F9 repair, after the
	// directory fsync that follows the creation): files that a directory fsync's listing shows
	// are created in the trace right before that SyncDir, and the later hook does not repeat it
	cellByKV := map[string]cellT{} // "key@version" -> cell
	var pendingCompacts, installed []crashCompact
	pendingFlush := false
	manifestIs := "" // what the change set being written is: "flush" / "compact"
	var manifestCp crashCompact
	// the TABLE line of table id logged by the same hook call as event i
	tableAt := func(i int, id uint64) ([]string, bool) {
		for j := i + 1; j < len(evs) && (evs[j].Kind == "TABLE" || evs[j].Kind == "LS" || evs[j].Kind == "TABLEERR"); j++ {
			if evs[j].Kind != "TABLE" {
				continue
			}
			fs := strings.Fields(evs[j].Rest)
			if len(fs) > 0 && fs[0] == fmt.Sprint(id) {
				return fs[1:], true
			}
		}
		return nil, false
	}
	createdSst := map[uint64]bool{}
	everSst := createdSst // a table id is never reused: a listed table already created is left alone
	ensureWal := func(fid uint64) {
		if t.wals[fid] || fid <= walcur {
			return
		}
		if t.sealedW < walcur {
			emit("PSeal")
			t.sealedW = walcur
		}
		walcur = fid
		t.wals[fid] = true
		emit(fmt.Sprintf("PE (Create (Wal %d))", fid))
		emit(fmt.Sprintf("PE (Init (Wal %d))", fid))
	}
	ensureVlog := func(fid uint64) {
		if fid <= vlogcur {
			return
		}
		if s.Sync && clean(curSeq, fmt.Sprintf("%06d.vlog", vlogcur)) {
			emit(fmt.Sprintf("PE (SyncFile (Vlog %d))", vlogcur))
		}
		vlogcur = fid
		emit(fmt.Sprintf("PE (Create (Vlog %d))", fid))
		emit(fmt.Sprintf("PE (Init (Vlog %d))", fid))
	}
	ensureSst := func(id uint64) {
		if createdSst[id] {
			return
		}
		createdSst[id] = true
		emit(fmt.Sprintf("PE (Create (Sst %d))", id))
		emit(fmt.Sprintf("PE (Init (Sst %d))", id))
	}
	createListed := func(ls string) {
		var mems, vlogs, ssts []uint64
		for _, f := range strings.Split(ls, ",") {
			j := strings.LastIndex(f, ":")
			if j < 0 {
				continue
			}
			n := f[:j]
			switch {
			case strings.HasSuffix(n, ".mem"):
				x, _ := strconv.ParseUint(strings.TrimSuffix(n, ".mem"), 10, 64)
				mems = append(mems, x)
			case strings.HasSuffix(n, ".vlog"):
				x, _ := strconv.ParseUint(strings.TrimSuffix(n, ".vlog"), 10, 64)
				vlogs = append(vlogs, x)
			case strings.HasSuffix(n, ".sst"):
				x, _ := strconv.ParseUint(strings.TrimSuffix(n, ".sst"), 10, 64)
				ssts = append(ssts, x)
			}
		}
		sort.Slice(mems, func(a, b int) bool { return mems[a] < mems[b] })
		sort.Slice(vlogs, func(a, b int) bool { return vlogs[a] < vlogs[b] })
		sort.Slice(ssts, func(a, b int) bool { return ssts[a] < ssts[b] })
		for _, x := range mems {
			ensureWal(x)
		}
		for _, x := range vlogs {
			ensureVlog(x)
		}
		for _, x := range ssts {
			if !everSst[x] {
				ensureSst(x)
			}
		}
	}
	for i, ev := range evs {
		if upto > 0 && ev.Seq > upto {
			break
		}
		if !opened {
			if ev.Kind == "OPEN-DONE" {
				opened = true
			}
			continue
		}
		curSeq = ev.Seq
		if ev.Kind == "LS" {
			continue
		}
		if ev.Kind == "GC" {
			fail("value-log GC in the log")
			return t
		}
		if ev.Kind == "COMPACT" {
			cp, ok := crashParseCompact(ev.Rest)
			if !ok {
				fail("unparsable COMPACT line")
				return t
			}
			for _, id := range cp.news {
				ensureSst(id)
				kvs, found := tableAt(i, id)
				if !found {
					fail(fmt.Sprintf("no TABLE line for compaction output %d", id))
					return t
				}
				for _, kv := range kvs {
					c, ok := cellByKV[kv]
					if !ok {
						fail("compaction output holds an entry no request wrote: " + kv)
						return t
					}
					emit(fmt.Sprintf("PE (Append (Sst %d) (IT (%s, %s)))", id, c.ent, c.ptr))
				}
				if clean(ev.Seq, fmt.Sprintf("%06d.sst", id)) {
					emit(fmt.Sprintf("PE (SyncFile (Sst %d))", id))
				}
			}
			pendingCompacts = append(pendingCompacts, cp)
			t.kinds["compaction"]++
			continue
		}
		if ev.Kind != "H" {
			continue
		}
		t.kinds[ev.Name]++
		switch ev.Name {
		case "persist.vlog.written":
			nVlogWritten++
			r := nVlogWritten
			ci := s.First + r - 1
			ws := crashCommit(s, ci)
			var cs []cellT
			nbig := 0
			for j, w := range ws {
				ce := crashCE(w.Key, uint64(ci), crashValID(ci, j, w))
				if w.Big {
					nbig++
					fid := ev.Args[0]
					idx := vlogIdx[fid]
					vlogIdx[fid]++
					emit(fmt.Sprintf("PE (Append (Vlog %d) (IV %s))", fid, ce))
					cs = append(cs, cellT{ce, fmt.Sprintf("(Some (mkVP %d %d%%nat))", fid, idx)})
					t.vlogOf[ci] = fid
				} else {
					cs = append(cs, cellT{ce, "None"})
				}
			}
			for j, w := range ws {
				cellByKV[fmt.Sprintf("%s@%d", w.Key, ci)] = cs[j]
			}
			if uint64(nbig) != ev.Args[2] {
				fail(fmt.Sprintf("request %d: %d vlog records written, %d expected", r, ev.Args[2], nbig))
				return t
			}
			cells[r] = cs
		case "persist.vlog.synced":
			if clean(ev.Seq, fmt.Sprintf("%06d.vlog", ev.Args[0])) {
				emit(fmt.Sprintf("PE (SyncFile (Vlog %d))", ev.Args[0]))
			}
		case "persist.vlog.created":
			ensureVlog(ev.Args[0])
		case "persist.wal.put":
			r := nReqDone + 1
			cs, ok := cells[r]
			if !ok {
				fail("WAL record without a preceding vlog.written")
				return t
			}
			j := int(ev.Args[0])
			ci := s.First + r - 1
			if j == 0 {
				var items []string
				for _, c := range cs {
					items = append(items, fmt.Sprintf("(%s, %s)", c.ent, c.ptr))
				}
				emit("PBegin " + ListOf(items))
				t.walOf[ci] = walcur
			}
			if j < len(cs) {
				emit(fmt.Sprintf("PE (Append (Wal %d) (IWent (%s, %s)))", walcur, cs[j].ent, cs[j].ptr))
			} else {
				emit(fmt.Sprintf("PE (Append (Wal %d) (IWfin %d))", walcur, ci))
				walUnits[walcur] = append(walUnits[walcur], r)
			}
		case "persist.wal.request-done":
			nReqDone++
			if s.Sync && clean(ev.Seq, fmt.Sprintf("%05d.mem", walcur)) {
				emit(fmt.Sprintf("PE (SyncFile (Wal %d))", walcur))
			}
		case "persist.batch.ack":
			emit("PAck")
		case "persist.mem.rotated":
			ensureWal(ev.Args[0])
		case "persist.flush.begin":
			// flushes are serial and in WAL order: the k-th flush takes the k-th WAL; when that is
			// the current WAL the writer has already handed it over (ensureRoomForWrite pushes to
			// flushChan before it creates the next WAL)
			nFlushBegun++
			if nFlushBegun == walcur && t.sealedW < walcur {
				emit("PSeal")
				t.sealedW = walcur
			}
		case "persist.flush.table":
			id := ev.Args[0]
			lastFlushTable = id
			ensureSst(id)
			if kvs, found := tableAt(i, id); found {
				// what the table file really holds (VerifTableKeys at the hook)
				for _, kv := range kvs {
					c, ok := cellByKV[kv]
					if !ok {
						fail("flushed table holds an entry no request wrote: " + kv)
						return t
					}
					emit(fmt.Sprintf("PE (Append (Sst %d) (IT (%s, %s)))", id, c.ent, c.ptr))
				}
			} else {
				for _, r := range walUnits[nFlushBegun] {
					for _, c := range cells[r] {
						emit(fmt.Sprintf("PE (Append (Sst %d) (IT (%s, %s)))", id, c.ent, c.ptr))
					}
				}
			}
			pendingFlush = true
			if clean(ev.Seq, fmt.Sprintf("%06d.sst", id)) {
				emit(fmt.Sprintf("PE (SyncFile (Sst %d))", id))
			}
		case "persist.manifest.before-write":
			// addChanges is serialised: the change set is the flusher's (one create: 14 bytes with
			// the default compression) or a compactor's (at least two changes)
			switch {
			case pendingFlush && (len(pendingCompacts) == 0 || ev.Args[0] <= 16):
				manifestIs = "flush"
			case len(pendingCompacts) == 1:
				manifestIs, manifestCp = "compact", pendingCompacts[0]
				pendingCompacts = nil
			default:
				fail("cannot attribute a MANIFEST change set (concurrent compactions)")
				return t
			}
		case "persist.manifest.written":
			switch manifestIs {
			case "flush":
				emit(fmt.Sprintf("PE (Append Manifest (IM [MCreate %d 0]))", lastFlushTable))
				flushedUpTo++
				pendingFlush = false
			case "compact":
				var chs []string
				for _, id := range manifestCp.news {
					chs = append(chs, fmt.Sprintf("MCreate %d %d", id, manifestCp.next))
				}
				for _, id := range append(append([]uint64{}, manifestCp.top...), manifestCp.bot...) {
					chs = append(chs, fmt.Sprintf("MDelete %d", id))
				}
				emit("PE (Append Manifest (IM " + ListOf(chs) + "))")
				installed = append(installed, manifestCp)
			default:
				fail("MANIFEST write without a pending flush or compaction")
				return t
			}
			manifestIs = ""
		case "persist.manifest.done":
			if clean(ev.Seq, "MANIFEST") {
				emit("PE (SyncFile Manifest)")
			}
		case "persist.compact.built", "persist.compact.manifest":
		case "persist.compact.installed":
			// the LS line of the same hook call: input tables that are gone have been removed
			if i+1 < len(evs) && evs[i+1].Kind == "LS" && len(installed) > 0 {
				cp := installed[0]
				installed = installed[1:]
				for _, id := range append(append([]uint64{}, cp.top...), cp.bot...) {
					if !crashHas(evs[i+1].Rest, fmt.Sprintf("%06d.sst", id)) {
						emit(fmt.Sprintf("PE (Truncate0 (Sst %d))", id))
						emit(fmt.Sprintf("PE (Unlink (Sst %d))", id))
					}
				}
			}
		case "persist.flush.manifest", "persist.flush.before-wal-release":
		case "persist.flush.wal-released":
			// the LS line logged by the same hook call tells whether the flushed WAL is gone
			if i+1 < len(evs) && evs[i+1].Kind == "LS" && flushedUpTo > 0 {
				if !crashHas(evs[i+1].Rest, fmt.Sprintf("%05d.mem", flushedUpTo)) {
					emit(fmt.Sprintf("PE (Truncate0 (Wal %d))", flushedUpTo))
					emit(fmt.Sprintf("PE (Unlink (Wal %d))", flushedUpTo))
					delete(t.wals, flushedUpTo)
				}
			}
		case "persist.syncdir.done":
			if gt != nil {
				// the names the real directory fsync covered (not the listing read after the hook)
				if ls, ok := gt.dirSync(ev.Seq); ok {
					createListed(ls)
					emit("PE SyncDir")
				}
			} else {
				if i+1 < len(evs) && evs[i+1].Kind == "LS" {
					createListed(evs[i+1].Rest)
				}
				emit("PE SyncDir")
			}
		default:
			fail("hook not covered by the translation: " + ev.Name)
			return t
		}
	}
	return t
}

// ---------------------------------------------------------------------------------------
// drivers

type crashJ = map[string]interface{}

func crashHas(ls, name string) bool {
	for _, f := range strings.Split(ls, ",") {
		if strings.HasPrefix(f, name+":") {
			return true
		}
	}
	return false
}

// determines what the code does NOW for the two repair flags (DESIGN §2.5: cfg_current)
func (e *crashEnv) currentFlags() (fixDir, fixZero bool, note string) {
	// F25: plant a zero-size WAL into a closed database
	dir := e.newDir("flagz")
	s := &crashSpec{Dir: dir, EventLog: filepath.Join(e.scratch, "flag.log"), SnapDir: e.scratch, NCommits: 3, First: 1,
		MemSize: 8 << 10, Sync: true}
	os.Remove(s.EventLog)
	e.runChild(s, 0)
	os.WriteFile(filepath.Join(dir, "00009.mem"), nil, 0o644)
	po, perr := e.probe(s)
	if po == nil {
		note += "flag probe failed: " + perr
	} else {
		fixZero = po.OpenErr == ""
	}
	// F9: replay the three witnesses on the hook log of a SyncWrites session with a rotation, a
	// flush and a value-log value: is the new file's name covered by a directory fsync before
	// it is relied upon (first acknowledgement into the new WAL / MANIFEST fsync / first
	// acknowledged value-log value)?
	dir2 := e.newDir("flagd")
	s2 := &crashSpec{Dir: dir2, EventLog: filepath.Join(e.scratch, "flag2.log"), SnapDir: e.scratch, NCommits: 90, First: 1,
		MemSize: 8 << 10, Sync: true, BigEvery: 2, BigSize: 100, WaitFlush: true}
	os.Remove(s2.EventLog)
	e.runChild(s2, 0)
	evs := crashReadLog(s2.EventLog)
	var enough bool
	fixDir, enough = crashDirsyncRepaired(evs)
	if !enough {
		note += "F9 witness replay inconclusive (no rotation/flush/vlog value in the probe session); assuming the pinned behaviour. "
	}
	os.RemoveAll(dir)
	os.RemoveAll(dir2)
	return
}

func crashCfgTerm(sync, fixDir, fixZero bool) string {
	return fmt.Sprintf("(mkCfg %s %s %s)", Bool(sync), Bool(fixDir), Bool(fixZero))
}

// recovered entries as Coq centries; ok=false if an entry cannot be attributed
func crashEntsTerm(s *crashSpec, po *probeOut, total int) (string, bool) {
	var items []string
	for _, e := range po.Entries {
		ci := -1
		val := uint64(0)
		if strings.HasPrefix(e.Val, "!ERR") {
			continue // unreadable: the model leaves such entries out
		}
		if e.Deleted {
			ci = int(e.Version) // first session: version = commit index
		} else {
			ci = crashCommitOfValue(e.Val)
		}
		if ci < 1 || ci > total {
			return "", false
		}
		found := false
		for j, w := range crashCommit(s, ci) {
			if w.Key == e.Key && ((w.Val == "" && e.Deleted) || (w.Val != "" && w.Val == e.Val)) {
				val = crashValID(ci, j, w)
				found = true
			}
		}
		if !found {
			if strings.HasPrefix(e.Val, "!ERR") {
				continue // unreadable: the model leaves such entries out
			}
			return "", false
		}
		items = append(items, crashCE(e.Key, e.Version, val))
	}
	return ListOf(items), true
}

type crashWorkload struct {
	name  string
	spec  crashSpec
	model bool // eligible for the model correspondence
	two   bool // two sessions
}

func crashWorkloads() []crashWorkload {
	return []crashWorkload{
		{"txn-nosync", crashSpec{NCommits: 150, MemSize: 8 << 10, BigEvery: 3, BigSize: 300, DelEvery: 5}, true, false},
		{"txn-sync", crashSpec{Sync: true, NCommits: 150, MemSize: 8 << 10, BigEvery: 4, BigSize: 300, DelEvery: 7}, true, false},
		{"batch-compact", crashSpec{Batch: true, NCommits: 400, MemSize: 8 << 10, NumComp: 2, BigEvery: 5, BigSize: 200, DelEvery: 6}, false, false},
		{"txn-sync-compact-gc", crashSpec{Sync: true, NCommits: 260, MemSize: 8 << 10, NumComp: 2, BigEvery: 2, BigSize: 5000, DelEvery: 4, GC: true}, false, false},
		{"two-sessions", crashSpec{NCommits: 120, MemSize: 8 << 10, NumComp: 2, BigEvery: 3, BigSize: 300, DelEvery: 5}, false, true},
		// explicit compactions through the production doCompact (no background compactors, no
		// deletes: tombstone elision is C12's subject): eligible for the model correspondence
		{"txn-compact", crashSpec{NCommits: 220, MemSize: 8 << 10, BigEvery: 4, BigSize: 300, CompactEvery: 45}, true, false},
	}
}

var crashRareHooks = []string{"persist.mem.rotated", "persist.flush.begin", "persist.flush.table",
	"persist.manifest.before-write", "persist.manifest.written", "persist.manifest.done", "persist.flush.manifest",
	"persist.flush.before-wal-release", "persist.flush.wal-released", "persist.syncdir.done",
	"persist.compact.built", "persist.compact.manifest", "persist.compact.installed", "persist.vlog.created"}

func crashRun(c *Ctx, power bool) error {
	scratch := os.Getenv("VERIF_SCRATCH_DIR")
	if scratch == "" {
		d, err := os.MkdirTemp("", "crash")
		if err != nil {
			return err
		}
		defer os.RemoveAll(d)
		scratch = d
	}
	c.Setup("FS Recover Persist Crash CorrC08", "run_case")
	e := &crashEnv{c: c, scratch: scratch}
	fixDir, fixZero, note := e.currentFlags()
	c.Extra["cfg_current"] = crashJ{"fix_dirsync": fixDir, "fix_zerolog": fixZero, "note": note}
	if power {
		return crashRunPower(c, e, fixDir, fixZero)
	}
	return crashRunKill(c, e, fixDir, fixZero)
}

// where each commit's WAL unit / vlog value went (independent of the model translation)
func crashLocate(s *crashSpec, evs []crashEvent, upto int) (walOf, vlogOf map[int]uint64) {
	walOf, vlogOf = map[int]uint64{}, map[int]uint64{}
	walcur := uint64(0)
	nVlog, nDone := 0, 0
	for _, ev := range evs {
		if upto > 0 && ev.Seq > upto {
			break
		}
		if ev.Kind == "LS" && walcur == 0 {
			for _, f := range strings.Split(ev.Rest, ",") {
				if i := strings.Index(f, ".mem:"); i > 0 {
					n, _ := strconv.ParseUint(f[:i], 10, 64)
					if n > walcur {
						walcur = n
					}
				}
			}
		}
		if ev.Kind != "H" {
			continue
		}
		switch ev.Name {
		case "persist.mem.rotated":
			walcur = ev.Args[0]
		case "persist.vlog.written":
			nVlog++
			if ev.Args[2] > 0 {
				vlogOf[s.First+nVlog-1] = ev.Args[0]
			}
		case "persist.wal.put":
			if ev.Args[0] == 0 {
				walOf[s.First+nDone] = walcur
			}
		case "persist.wal.request-done":
			nDone++
		}
	}
	return
}

func crashOpenSig(prop, openErr string) string {
	switch {
	case strings.Contains(openErr, "Create a new file"):
		return "F25-open-fails-zero-size-log"
	case strings.Contains(openErr, "file does not exist for table"):
		return "F9-open-fails-table-name-not-dirsynced"
	case prop == "C10":
		return "c10-open-fails-after-power-loss"
	}
	return "c08-open-fails-after-crash"
}

type crashResult struct {
	k       int
	wl      string
	mech    string
	desc    crashJ
	childR  string
	po      *probeOut
	perr    string
	verdict crashVerdict
	acked   int
	issued  int
	term    string // Coq case term ("" = none)
	skipWhy string
	sig     string
	what    string
	nEvents int
}

var crashWriterHooks = map[string]bool{"persist.wal.put": true, "persist.wal.request-done": true,
	"persist.batch.ack": true, "persist.vlog.written": true, "persist.vlog.synced": true,
	"persist.mem.rotated": true, "persist.vlog.created": true}

func crashExitHook(evs []crashEvent) (string, int) {
	for i := len(evs) - 1; i >= 0; i-- {
		if evs[i].Kind == "EXIT" {
			for j := i - 1; j >= 0; j-- {
				if evs[j].Kind == "H" {
					return evs[j].Name, evs[j].Seq
				}
			}
		}
	}
	return "", 0
}

// one crash point of a single-session workload
func (e *crashEnv) killJob(k int, wl crashWorkload, mech string, rng *rand.Rand, ref map[string]int, refDur time.Duration,
	fixDir, fixZero bool, emulate string) crashResult {
	r := crashResult{k: k, wl: wl.name, mech: mech}
	e2 := *e
	dir := filepath.Join(e.scratch, fmt.Sprintf("k%d", k))
	os.RemoveAll(dir)
	os.MkdirAll(filepath.Join(dir, "db"), 0o755)
	defer os.RemoveAll(dir)
	e2.scratch = dir
	s := wl.spec
	s.Dir, s.EventLog, s.SnapDir, s.First = filepath.Join(dir, "db"), filepath.Join(dir, "ev.log"), dir, 1
	kill := time.Duration(0)
	switch mech {
	case "sigkill":
		kill = time.Duration(5+rng.Int63n(int64(refDur/time.Millisecond)+1)) * time.Millisecond
		r.desc = crashJ{"kill_after_ms": int64(kill / time.Millisecond)}
	case "exit-hit":
		s.ExitAt = 1 + rng.Intn(ref["#hits"])
		r.desc = crashJ{"exit_at_hit": s.ExitAt}
	case "exit-hook":
		var cands []string
		for _, h := range crashRareHooks {
			if ref[h] > 0 {
				cands = append(cands, h)
			}
		}
		if i := strings.Index(emulate, "#"); i > 0 && ref[emulate[:i]] > 0 {
			// directed crash point: a named hook and its occurrence
			s.ExitName = emulate[:i]
			fmt.Sscanf(emulate[i+1:], "%d", &s.ExitOcc)
			if s.ExitOcc > ref[s.ExitName] {
				s.ExitOcc = ref[s.ExitName]
			}
		} else if len(cands) == 0 {
			s.ExitAt = 1 + rng.Intn(ref["#hits"])
		} else {
			s.ExitName = cands[rng.Intn(len(cands))]
			s.ExitOcc = 1 + rng.Intn(ref[s.ExitName])
		}
		r.desc = crashJ{"exit_hook": s.ExitName, "occurrence": s.ExitOcc, "exit_at_hit": s.ExitAt}
	case "emulate":
		if emulate == "wal-delete-window" {
			s.ExitName, s.ExitOcc = "persist.flush.before-wal-release", 1
		} else {
			s.ExitName, s.ExitOcc = "persist.mem.rotated", 1
		}
		r.desc = crashJ{"exit_hook": s.ExitName, "emulated_step": emulate}
	}
	r.childR = e2.runChild(&s, kill)
	evs := crashReadLog(s.EventLog)
	r.nEvents = len(evs)
	r.acked, r.issued = crashAcked(evs, 0)
	extra := []string{}
	if mech == "emulate" {
		walOf, _ := crashLocate(&s, evs, 0)
		maxWal := uint64(1)
		for _, f := range walOf {
			if f > maxWal {
				maxWal = f
			}
		}
		if emulate == "wal-delete-window" {
			// z.MmapFile.Delete = munmap, ftruncate(fd, 0), close, unlink: the process dies after the ftruncate
			os.Truncate(filepath.Join(s.Dir, "00001.mem"), 0)
		} else {
			// z.OpenMmapFile = openat(O_CREAT) then ftruncate(size): the process dies in between
			next := maxWal + 1
			if hn, _ := crashExitHook(evs); hn == "persist.mem.rotated" {
				for _, ev := range evs {
					if ev.Kind == "H" && ev.Name == "persist.mem.rotated" {
						next = ev.Args[0] + 1
					}
				}
			}
			os.WriteFile(filepath.Join(s.Dir, fmt.Sprintf("%05d.mem", next)), nil, 0o666)
		}
	}
	var pre *crashTrace
	if wl.model && mech != "sigkill" {
		pre = crashBuildTrace(&s, evs, 0, nil)
		opened := false
		for _, ev := range evs {
			if ev.Kind == "OPEN-DONE" {
				opened = true
			}
		}
		if !opened {
			pre.ok, pre.why = false, "killed during the initial Open (the model starts from the opened empty database)"
		}
		if pre.ok {
			extra = pre.reconcile(s.Dir)
		}
	}
	r.po, r.perr = e2.probe(&s)
	if r.po == nil {
		r.sig, r.what = "harness-probe-died", r.perr
		return r
	}
	if r.po.OpenErr != "" {
		r.sig = crashOpenSig("C08", r.po.OpenErr)
		r.what = "Open after the crash: " + r.po.OpenErr + " (second Open: " + r.po.Open2Err + ")"
	} else {
		r.verdict = crashOracle(&s, r.issued, r.acked, r.po)
		r.sig, r.what = r.verdict.Sig, r.verdict.What
	}
	// model correspondence
	hook, _ := crashExitHook(evs)
	if !wl.model {
		r.skipWhy = "workload with compaction: oracle only"
		return r
	}
	if mech == "sigkill" {
		r.skipWhy = "SIGKILL: the cut point is not known"
		return r
	}
	t := pre
	if !t.ok {
		r.skipWhy = t.why
		return r
	}
	for ci, ver := range r.verdict.Versions {
		if uint64(ci) != ver {
			r.skipWhy = fmt.Sprintf("commit %d has version %d", ci, ver)
			r.sig, r.what = "harness-version-assumption", r.skipWhy
			return r
		}
	}
	ents := "[]"
	if r.po.OpenErr == "" {
		var ok bool
		ents, ok = crashEntsTerm(&s, r.po, r.issued)
		if !ok {
			r.skipWhy = "an entry could not be attributed"
			return r
		}
	}
	exact := (crashWriterHooks[hook] && len(extra) == 0) || mech == "emulate"
	r.desc["events_read_off_the_directory"] = extra
	tr := append(append([]string{}, t.evs...), extra...)
	r.term = fmt.Sprintf("(CCrash %s %s %s %s %d%%nat %s)", crashCfgTerm(s.Sync, fixDir, fixZero), ListOf(tr),
		Bool(r.po.OpenErr == ""), Bool(exact), r.verdict.N, ents)
	return r
}

func crashRunKill(c *Ctx, e *crashEnv, fixDir, fixZero bool) error {
	wls := crashWorkloads()
	// reference runs: hook counts and duration per workload
	type refT struct {
		hist map[string]int
		dur  time.Duration
	}
	refs := make([]refT, len(wls))
	var wg sync.WaitGroup
	for i := range wls {
		wg.Add(1)
		go func(i int) {
			defer wg.Done()
			dir := filepath.Join(e.scratch, fmt.Sprintf("ref%d", i))
			os.MkdirAll(filepath.Join(dir, "db"), 0o755)
			defer os.RemoveAll(dir)
			s := wls[i].spec
			s.Dir, s.EventLog, s.SnapDir, s.First = filepath.Join(dir, "db"), filepath.Join(dir, "ev.log"), dir, 1
			e2 := *e
			e2.scratch = dir
			t0 := time.Now()
			e2.runChild(&s, 0)
			refs[i].dur = time.Since(t0)
			h := map[string]int{}
			for _, ev := range crashReadLog(s.EventLog) {
				if ev.Kind == "H" {
					h[ev.Name]++
					h["#hits"]++
				}
			}
			refs[i].hist = h
		}(i)
	}
	wg.Wait()
	refInfo := crashJ{}
	for i, wl := range wls {
		refInfo[wl.name] = crashJ{"hooks": refs[i].hist, "ms": refs[i].dur / time.Millisecond}
		if refs[i].hist["#hits"] == 0 {
			return fmt.Errorf("reference run of workload %s hit no persistence hook (hooks missing from /repo?)", wl.name)
		}
	}
	c.Extra["reference_runs"] = refInfo

	type job struct {
		k       int
		wl      int
		mech    string
		seed    int64
		emulate string
	}
	var jobs []job
	jobs = append(jobs, job{0, 1, "emulate", 0, "wal-delete-window"}, job{1, 0, "emulate", 0, "wal-create-window"},
		job{2, 0, "managed-batch", 0, ""})
	// directed crash points on the workload with explicit compactions: every step of a flush and of
	// a compaction (tables built / MANIFEST appended / levels updated and input files deleted)
	k0 := 3
	for _, pt := range []string{"persist.compact.built#1", "persist.compact.manifest#1", "persist.compact.installed#1",
		"persist.compact.installed#2", "persist.compact.manifest#2", "persist.flush.table#1", "persist.flush.manifest#2"} {
		jobs = append(jobs, job{k0, 5, "exit-hook", int64(k0), pt})
		k0++
	}
	mechs := []string{"exit-hook", "exit-hit", "sigkill", "exit-hook", "exit-hit"}
	for k := k0; k < c.N+3; k++ {
		jobs = append(jobs, job{k, []int{0, 1, 2, 3, 4, 5, 0, 1, 5}[c.Rng.Intn(9)], mechs[k%len(mechs)], c.Rng.Int63(), ""})
	}
	results := make([]crashResult, len(jobs))
	sem := make(chan struct{}, 5)
	for ji, j := range jobs {
		wg.Add(1)
		sem <- struct{}{}
		go func(ji int, j job) {
			defer wg.Done()
			defer func() { <-sem }()
			rng := rand.New(rand.NewSource(j.seed))
			wl := wls[j.wl]
			if j.mech == "managed-batch" {
				results[ji] = e.managedJob(j.k)
			} else if wl.two {
				results[ji] = e.twoSessionJob(j.k, wl, j.mech, rng, refs[j.wl].hist, refs[j.wl].dur)
			} else {
				results[ji] = e.killJob(j.k, wl, j.mech, rng, refs[j.wl].hist, refs[j.wl].dur, fixDir, fixZero, j.emulate)
			}
		}(ji, j)
	}
	wg.Wait()
	skips := map[string]int{}
	for _, r := range results {
		c.Count("workload:" + r.wl)
		c.Count("mechanism:" + r.mech)
		replay := crashJ{"workload": r.wl, "mechanism": r.mech, "point": r.desc, "child": r.childR, "acked": r.acked,
			"issued": r.issued, "recovered_prefix": r.verdict.N}
		c.Oracle(r.sig == "", r.sig, r.what, replay)
		if r.term != "" {
			c.Case("crash:"+r.wl, r.term, crashJ{"workload": r.wl, "mechanism": r.mech, "point": r.desc, "events": r.nEvents})
		} else {
			skips[r.skipWhy]++
		}
	}
	c.Extra["correspondence_skipped"] = skips
	return nil
}

// crash, recover, continue, crash again
func (e *crashEnv) twoSessionJob(k int, wl crashWorkload, mech string, rng *rand.Rand, ref map[string]int, refDur time.Duration) crashResult {
	r := crashResult{k: k, wl: wl.name, mech: mech, skipWhy: "two sessions: oracle only"}
	e2 := *e
	dir := filepath.Join(e.scratch, fmt.Sprintf("k%d", k))
	os.RemoveAll(dir)
	os.MkdirAll(filepath.Join(dir, "db"), 0o755)
	defer os.RemoveAll(dir)
	e2.scratch = dir
	s := wl.spec
	s.Dir, s.EventLog, s.SnapDir, s.First = filepath.Join(dir, "db"), filepath.Join(dir, "ev1.log"), dir, 1
	kill := time.Duration(0)
	if mech == "sigkill" {
		kill = time.Duration(5+rng.Int63n(int64(refDur/time.Millisecond)+1)) * time.Millisecond
	} else {
		s.ExitAt = 1 + rng.Intn(ref["#hits"])
	}
	c1 := e2.runChild(&s, kill)
	evs1 := crashReadLog(s.EventLog)
	acked1, issued1 := crashAcked(evs1, 0)
	po1, perr := e2.probe(&s)
	if po1 == nil {
		r.sig, r.what = "harness-probe-died", perr
		return r
	}
	if po1.OpenErr != "" {
		r.sig, r.what = crashOpenSig("C08", po1.OpenErr), "Open after the first crash: "+po1.OpenErr
		return r
	}
	v1 := crashOracle(&s, issued1, acked1, po1)
	if v1.Sig != "" {
		r.sig, r.what, r.verdict, r.acked, r.issued = v1.Sig, "after the first crash: "+v1.What, v1, acked1, issued1
		return r
	}
	// second session continues after the recovered prefix; it may die during Open's recovery
	s2 := wl.spec
	s2.Dir, s2.EventLog, s2.SnapDir = s.Dir, filepath.Join(dir, "ev2.log"), dir
	s2.Reopen, s2.First, s2.NCommits = true, v1.N+1, 60
	kill2 := time.Duration(0)
	if rng.Intn(2) == 0 {
		kill2 = time.Duration(5+rng.Int63n(int64(refDur/time.Millisecond)/2+1)) * time.Millisecond
	} else {
		s2.ExitAt = 1 + rng.Intn(ref["#hits"]/3+1)
	}
	c2 := e2.runChild(&s2, kill2)
	evs2 := crashReadLog(s2.EventLog)
	acked2, issued2 := crashAcked(evs2, 0)
	r.desc = crashJ{"first": crashJ{"kill_ms": int64(kill / time.Millisecond), "exit_at_hit": s.ExitAt, "recovered": v1.N, "child": c1},
		"second": crashJ{"kill_ms": int64(kill2 / time.Millisecond), "exit_at_hit": s2.ExitAt, "child": c2}}
	r.childR = c2
	r.nEvents = len(evs1) + len(evs2)
	r.acked, r.issued = v1.N, v1.N
	if acked2 > r.acked {
		r.acked = acked2
	}
	if issued2 > r.issued {
		r.issued = issued2
	}
	r.po, r.perr = e2.probe(&s2)
	if r.po == nil {
		r.sig, r.what = "harness-probe-died", r.perr
		return r
	}
	if r.po.OpenErr != "" {
		r.sig, r.what = crashOpenSig("C08", r.po.OpenErr), "Open after the second crash: "+r.po.OpenErr
		return r
	}
	r.verdict = crashOracle(&s2, r.issued, r.acked, r.po)
	r.sig, r.what = r.verdict.Sig, r.verdict.What
	return r
}

// ---------------------------------------------------------------------------------------
// C10: power-loss images

type crashSnapIndex map[string][]int // file name -> ascending seqs of its snapshots

func crashIndexSnaps(dir string) crashSnapIndex {
	idx := crashSnapIndex{}
	ents, _ := os.ReadDir(dir)
	for _, en := range ents {
		n := en.Name()
		i := strings.Index(n, "_")
		if i <= 0 {
			continue
		}
		seq, err := strconv.Atoi(n[:i])
		if err != nil {
			continue
		}
		idx[n[i+1:]] = append(idx[n[i+1:]], seq)
	}
	for k := range idx {
		sort.Ints(idx[k])
	}
	return idx
}

// names as of the last directory fsync at or before cut
func crashDurableNames(evs []crashEvent, cut int) []string {
	ls := ""
	for i, ev := range evs {
		if ev.Seq > cut {
			break
		}
		if ev.Kind == "H" && ev.Name == "persist.syncdir.done" && i+1 < len(evs) && evs[i+1].Kind == "LS" {
			ls = evs[i+1].Rest
		}
	}
	var out []string
	for _, f := range strings.Split(ls, ",") {
		if i := strings.LastIndex(f, ":"); i > 0 {
			out = append(out, f[:i])
		}
	}
	return out
}

// builds the directory a power loss at event `cut` leaves behind.  durable: the names that
// survive (hook log: crashDurableNames; strace ground truth: straceTruth.durableNames); idx: the
// snapshots that count as durable content (with a ground truth: only the validated ones)
func crashMaterialise(durable []string, snapDir string, idx crashSnapIndex, cut int, img string) (names []string, synced map[string]int) {
	os.RemoveAll(img)
	os.MkdirAll(img, 0o755)
	synced = map[string]int{}
	for _, n := range durable {
		if n == "LOCK" {
			continue
		}
		names = append(names, n)
		best := 0
		for _, sq := range idx[n] {
			if sq <= cut {
				best = sq
			}
		}
		dst := filepath.Join(img, n)
		if best == 0 {
			os.WriteFile(dst, nil, 0o666) // never synced: empty
			continue
		}
		synced[n] = best
		crashCopyFile(filepath.Join(snapDir, fmt.Sprintf("%d_%s", best, n)), dst, -1)
	}
	return
}

// one SyncWrites workload run of the C10 check with everything derived from it
type crashPowerRun struct {
	wl     crashWorkload
	s      crashSpec
	evs    []crashEvent
	idx    crashSnapIndex // every snapshot the child took (one per sync claim of a hook)
	vidx   crashSnapIndex // the snapshots that count as durable content (validated by the ground truth)
	cuts   []int
	dir    string
	childR string
	st     *straceTruth // nil: strace unavailable
	gt     crashTruth
	claims []crashClaim
	err    error
}

// a hook of the log that the harness treats as "file F (or the directory) is durable up to here"
type crashClaim struct {
	seq   int
	name  string // file name; "" for the directory
	kind  string // wal, vlog, table, manifest, manifest-at-open, keyregistry, dir, ack-wal, ack-vlog
	hook  string
	ok    bool
	why   string
	v     stVerdict
	msync string // MANIFEST: what the wrapped syncFunc says ("", "called", "NOT called")
}

func crashClaimKind(name, hook string) string {
	switch {
	case strings.HasSuffix(name, ".mem"):
		return "wal"
	case strings.HasSuffix(name, ".vlog"):
		return "vlog"
	case strings.HasSuffix(name, ".sst"):
		return "table"
	case name == "MANIFEST" && hook == "OPEN-DONE":
		return "manifest-at-open"
	case name == "MANIFEST":
		return "manifest"
	case name == "KEYREGISTRY":
		return "keyregistry"
	}
	return "other"
}

// The sync claims of one hook log, each checked against the ground truth.  File claims are
// exactly the snapshots the child took (crashLogger.point / crashChild):
//   persist.wal.request-done   -> the current WAL was msynced (memTable.SyncWAL)          [wal]
//   persist.vlog.synced fid    -> value-log file fid was msynced (valueLog.write, deferred) [vlog]
//   persist.vlog.created fid   -> file fid-1 was msynced by doneWriting before the rotation [vlog]
//   persist.flush.table id     -> table id was msynced by table.CreateTable                [table]
//   COMPACT (NewTables)        -> every compaction output was msynced by CreateTable       [table]
//   persist.manifest.done      -> the MANIFEST was fsynced after the appended change set   [manifest]
//   OPEN-DONE                  -> Open wrote + fsynced MANIFEST (helpRewrite: MANIFEST-REWRITE,
//                                 fsync, rename) and KEYREGISTRY (O_DSYNC write, rename)   [manifest-at-open, keyregistry]
//   persist.syncdir.done       -> the directory was fsynced (names durable)                [dir]
// and, with strace, at every persist.batch.ack: the WALs / value-log files written since the
// previous acknowledgement are clean                                            [ack-wal, ack-vlog]
func (run *crashPowerRun) checkClaims() {
	evBySeq := map[int]crashEvent{}
	for _, ev := range run.evs {
		evBySeq[ev.Seq] = ev
	}
	msyncOK := crashManifestSyncs(run.evs)
	var claims []crashClaim
	for name, seqs := range run.idx {
		for _, sq := range seqs {
			ev := evBySeq[sq]
			hook := ev.Name
			if ev.Kind != "H" {
				hook = ev.Kind
			}
			cl := crashClaim{seq: sq, name: name, hook: hook, kind: crashClaimKind(name, hook)}
			if name == "MANIFEST" && hook == "persist.manifest.done" {
				cl.msync = "called"
				if !msyncOK[sq] {
					cl.msync = "NOT called"
				}
			}
			if run.st != nil {
				cl.v = run.st.cleanV(sq, name)
				cl.ok, cl.why = cl.v.ok, cl.v.why
			} else {
				cl.ok = run.gt.clean(sq, name)
				if !cl.ok {
					cl.why = "manifest.go syncFunc was not called between the write of the change set and the hook (no MSYNC line)"
				}
			}
			claims = append(claims, cl)
		}
	}
	if run.st != nil {
		touched := map[string]string{}
		for _, ev := range run.evs {
			if ev.Kind != "H" {
				continue
			}
			switch ev.Name {
			case "persist.syncdir.done":
				cl := crashClaim{seq: ev.Seq, kind: "dir", hook: ev.Name}
				_, cl.ok = run.st.dirSync(ev.Seq)
				cl.v = stVerdict{pos: run.st.marker[ev.Seq], lastDirty: run.st.marker[ev.Seq] - 60, obj: -1}
				if !cl.ok {
					cl.why = "no completed fsync of the database directory before the hook's marker that an earlier persist.syncdir.done has not already claimed"
				}
				claims = append(claims, cl)
			case "persist.wal.put":
				if n := run.st.putWal[ev.Seq]; n != "" {
					touched[n] = "ack-wal"
				}
			case "persist.vlog.written":
				if len(ev.Args) == 3 && ev.Args[2] > 0 {
					touched[fmt.Sprintf("%06d.vlog", ev.Args[0])] = "ack-vlog"
				}
			case "persist.batch.ack":
				for n, k := range touched {
					cl := crashClaim{seq: ev.Seq, name: n, kind: k, hook: ev.Name}
					cl.v = run.st.cleanV(ev.Seq, n)
					cl.ok, cl.why = cl.v.ok, cl.v.why
					claims = append(claims, cl)
				}
				touched = map[string]string{}
			}
		}
	}
	sort.Slice(claims, func(a, b int) bool {
		if claims[a].seq != claims[b].seq {
			return claims[a].seq < claims[b].seq
		}
		return claims[a].name < claims[b].name
	})
	run.claims = claims
	// durable content = the validated snapshots only
	run.vidx = crashSnapIndex{}
	for _, cl := range claims {
		if cl.ok && cl.name != "" && !strings.HasPrefix(cl.kind, "ack-") {
			run.vidx[cl.name] = append(run.vidx[cl.name], cl.seq)
		}
	}
	for k := range run.vidx {
		sort.Ints(run.vidx[k])
	}
}

func (run *crashPowerRun) durableNames(cut int) []string {
	if run.st != nil {
		return run.st.durableNames(cut)
	}
	return crashDurableNames(run.evs, cut)
}

func crashRunPower(c *Ctx, e *crashEnv, fixDir, fixZero bool) error {
	wls := []crashWorkload{
		{"sync-novlog", crashSpec{Sync: true, NCommits: 140, MemSize: 8 << 10, DelEvery: 6, Snap: true}, true, false},
		{"sync-vlog", crashSpec{Sync: true, NCommits: 140, MemSize: 8 << 10, BigEvery: 3, BigSize: 300, DelEvery: 5, Snap: true}, true, false},
		// batched requests (WriteBatch commits asynchronously: several requests per writer call), some
		// with value-log values and some without: every request of a call must be durable at its ack
		{"sync-batch-compact", crashSpec{Sync: true, Batch: true, NCommits: 300, MemSize: 8 << 10, NumComp: 2, BigEvery: 3, BigSize: 300, DelEvery: 5, Snap: true}, false, false},
		{"sync-compact", crashSpec{Sync: true, NCommits: 220, MemSize: 8 << 10, BigEvery: 4, BigSize: 300, CompactEvery: 45, Snap: true}, true, false},
		// three concurrent committers (several requests per writer call, every second commit with a
		// value-log value): judged by the sync-claims oracle only — every acknowledgement must be
		// preceded by a real sync of every log file its request wrote (no images, no model cases)
		{"sync-concurrent-claims", crashSpec{Sync: true, NCommits: 240, MemSize: 64 << 10, BigEvery: 2, BigSize: 300, Snap: true, Conc: 3}, false, false},
	}
	// ground truth: the system calls of the workload children (strace.go)
	straceOK, straceVer := false, "disabled by VERIF_NO_STRACE"
	if os.Getenv("VERIF_NO_STRACE") == "" {
		straceOK, straceVer = straceProbe(e.scratch)
	}
	straceInfo := crashJ{"version": straceVer}
	if straceOK {
		c.Extra["strace"] = straceInfo
	} else {
		c.Extra["strace"] = "unavailable"
		c.Extra["strace_unavailable_because"] = straceVer
		c.Extra["ground_truth"] = "NONE for msync/fsync/directory fsync (hooks trusted); MANIFEST fsync of addChanges: wrapped syncFunc (MSYNC lines)"
	}
	runs := make([]*crashPowerRun, len(wls))
	var wg sync.WaitGroup
	for i := range wls {
		wg.Add(1)
		go func(i int) {
			defer wg.Done()
			dir := filepath.Join(e.scratch, fmt.Sprintf("p%d", i))
			os.MkdirAll(filepath.Join(dir, "db"), 0o755)
			os.MkdirAll(filepath.Join(dir, "snap"), 0o755)
			s := wls[i].spec
			s.Dir, s.EventLog, s.SnapDir, s.First = filepath.Join(dir, "db"), filepath.Join(dir, "ev.log"), filepath.Join(dir, "snap"), 1
			e2 := *e
			e2.scratch = dir
			run := &crashPowerRun{wl: wls[i], s: s, dir: dir}
			runs[i] = run
			if straceOK {
				e2.strace = filepath.Join(dir, "strace.txt")
			}
			run.childR = e2.runChild(&s, 0)
			run.evs, run.idx = crashReadLog(s.EventLog), crashIndexSnaps(s.SnapDir)
			if straceOK {
				st, err := straceLoad(e2.strace, s.Dir, s.EventLog)
				if err != nil {
					run.err = fmt.Errorf("workload %s: reading the strace output: %v", wls[i].name, err)
					return
				}
				st.finish(run.evs)
				// the phase must not be vacuous: every line of the event log is a marker in the trace
				missing := 0
				for _, ev := range run.evs {
					if _, ok := st.marker[ev.Seq]; !ok {
						missing++
					}
				}
				if run.childR != "exit 0" || len(run.evs) == 0 || missing > 0 {
					run.err = fmt.Errorf("workload %s under strace: child %q, %d event-log lines, %d of them without a marker write in the system-call trace (%d system calls parsed): the ground-truth phase would be vacuous",
						wls[i].name, run.childR, len(run.evs), missing, st.nCalls)
					return
				}
				run.st, run.gt = st, st
			} else {
				run.gt = newHookTruth(run.evs)
			}
			run.checkClaims()
		}(i)
	}
	wg.Wait()
	for _, run := range runs {
		if run.err != nil {
			return run.err // harness error (not a property violation)
		}
	}
	info := crashJ{}
	// cut points: first the points where a deletion has become durable (everything that was
	// deleted must have been replaced by something synced: the ground truth decides), every rare
	// hook, the first acknowledgement after it, then random hooks
	perWl := (c.N + len(wls) - 1) / len(wls)
	for i, run := range runs {
		if run.wl.spec.Conc > 1 {
			info[run.wl.name] = crashJ{"events": len(run.evs), "claims_only": true}
			continue
		}
		evs := run.evs
		var all, rare []int
		var prio [][2]int // (directory fsync that made a deletion durable, first acknowledgement after it)
		opened := false
		wantAck, wantAckPrio := false, false
		h := map[string]int{}
		var prevDurable []string
		for _, ev := range evs {
			if ev.Kind == "OPEN-DONE" {
				opened = true
				rare = append(rare, ev.Seq)
			}
			if !opened || ev.Kind != "H" {
				continue
			}
			h[ev.Name]++
			all = append(all, ev.Seq)
			isRare := false
			for _, rh := range crashRareHooks {
				if rh == ev.Name {
					isRare = true
				}
			}
			if ev.Name == "persist.syncdir.done" {
				now := run.durableNames(ev.Seq)
				for _, n := range prevDurable {
					gone := true
					for _, m := range now {
						if m == n {
							gone = false
						}
					}
					if gone && n != "LOCK" {
						prio = append(prio, [2]int{ev.Seq, 0})
						wantAckPrio = true
						break
					}
				}
				prevDurable = now
			}
			if isRare {
				rare = append(rare, ev.Seq)
				wantAck = true
			} else if ev.Name == "persist.batch.ack" {
				if wantAckPrio {
					prio[len(prio)-1][1] = ev.Seq
				} else if wantAck {
					rare = append(rare, ev.Seq)
				}
				wantAck, wantAckPrio = false, false
			}
		}
		if len(all) == 0 {
			return fmt.Errorf("workload %s logged no persistence hook", wls[i].name)
		}
		seen := map[int]bool{}
		var cuts []int
		c.Rng.Shuffle(len(prio), func(a, b int) { prio[a], prio[b] = prio[b], prio[a] })
		for _, pr := range prio {
			for _, sq := range pr {
				if sq > 0 && len(cuts) < perWl/3 && !seen[sq] {
					cuts = append(cuts, sq)
					seen[sq] = true
				}
			}
		}
		nPrio := len(cuts)
		c.Rng.Shuffle(len(rare), func(a, b int) { rare[a], rare[b] = rare[b], rare[a] })
		for _, sq := range rare {
			if len(cuts) < perWl*2/3 && !seen[sq] {
				cuts = append(cuts, sq)
				seen[sq] = true
			}
		}
		for tries := 0; len(cuts) < perWl && tries < 10*perWl; tries++ {
			sq := all[c.Rng.Intn(len(all))]
			if !seen[sq] {
				cuts = append(cuts, sq)
				seen[sq] = true
			}
		}
		sort.Ints(cuts)
		run.cuts = cuts
		wi := crashJ{"hooks": h, "events": len(evs), "snapshots": len(run.idx), "cuts_after_a_durable_deletion": nPrio}
		if run.st != nil {
			st := run.st
			nsnap, nvalid := 0, 0
			for _, v := range run.idx {
				nsnap += len(v)
			}
			for _, v := range run.vidx {
				nvalid += len(v)
			}
			wi["strace"] = crashJ{"lines": len(st.lines), "system_calls": st.nCalls, "markers": len(st.marker), "msync": st.nMsync,
				"fsync": st.nFsync, "directory_fsyncs": len(st.dirSyncs), "file_objects": len(st.objs),
				"msync_on_untracked_mapping": st.unmapped, "snapshots_taken": nsnap, "snapshots_durable": nvalid, "notes": st.parseNotes}
		}
		info[wls[i].name] = wi
	}
	c.Extra["workload_runs"] = info

	type job struct{ wl, cut int }
	var jobs []job
	for i := range runs {
		for _, ct := range runs[i].cuts {
			jobs = append(jobs, job{i, ct})
		}
	}
	results := make([]crashResult, len(jobs))
	sem := make(chan struct{}, 6)
	for ji, j := range jobs {
		wg.Add(1)
		sem <- struct{}{}
		go func(ji int, j job) {
			defer wg.Done()
			defer func() { <-sem }()
			results[ji] = e.powerJob(ji, runs[j.wl], j.cut, fixDir, fixZero)
		}(ji, j)
	}
	wg.Wait()
	skips := map[string]int{}
	namesDiffer := 0
	for _, r := range results {
		c.Count("workload:" + r.wl)
		c.Count("cut-at:" + fmt.Sprint(r.desc["hook"]))
		if r.desc["hook_log_names_differ"] != nil {
			namesDiffer++
		}
		replay := crashJ{"workload": r.wl, "point": r.desc, "acked": r.acked, "issued": r.issued, "recovered_prefix": r.verdict.N}
		c.Oracle(r.sig == "", r.sig, r.what, replay)
		if r.term != "" {
			c.Case("power:"+r.wl, r.term, crashJ{"workload": r.wl, "point": r.desc})
		} else {
			skips[r.skipWhy]++
		}
	}
	// the claims oracle: one evaluation per workload and claim kind
	msyncDisagree := 0
	for _, run := range runs {
		byKind := map[string][]crashClaim{}
		var kinds []string
		for _, cl := range run.claims {
			if _, ok := byKind[cl.kind]; !ok {
				kinds = append(kinds, cl.kind)
			}
			byKind[cl.kind] = append(byKind[cl.kind], cl)
			if cl.msync == "NOT called" && cl.ok {
				msyncDisagree++
			}
		}
		sort.Strings(kinds)
		for _, k := range kinds {
			var bad []crashClaim
			for _, cl := range byKind[k] {
				c.Count("sync-claim:" + k)
				if !cl.ok {
					bad = append(bad, cl)
				}
			}
			if len(bad) == 0 {
				c.Oracle(true, "", "", nil)
				continue
			}
			b := bad[0]
			sig := "c10-hook-claims-sync-but-no-sync-syscall:" + k
			what := fmt.Sprintf("workload %s: %d of %d claims of kind %s have no real sync; first: event %d (%s) treats %s as durable: %s",
				run.wl.name, len(bad), len(byKind[k]), k, b.seq, b.hook, b.name, b.why)
			if strings.HasPrefix(k, "ack-") {
				sig = "c10-ack-before-sync:" + strings.TrimPrefix(k, "ack-")
				what = fmt.Sprintf("workload %s: %d of %d acknowledgements precede the sync of a file they depend on; first: event %d acknowledges requests written to %s: %s",
					run.wl.name, len(bad), len(byKind[k]), b.seq, b.name, b.why)
			}
			if run.st == nil {
				sig = "c10-hook-claims-sync-but-syncfunc-not-called:" + k
			}
			replay := crashJ{"workload": run.wl.name, "event_seq": b.seq, "hook": b.hook, "file": b.name, "failing_claims": len(bad), "claims": len(byKind[k])}
			if b.msync != "" {
				replay["wrapped_syncFunc"] = b.msync
			}
			if run.st != nil && b.v.pos > 0 {
				from := b.v.lastDirty - 6
				if b.v.pos-from > 400 {
					from = b.v.pos - 400
				}
				replay["syscall_window"] = run.st.window(from, b.v.pos+2, 40)
			}
			c.Oracle(false, sig, what, replay)
		}
	}
	if straceOK {
		straceInfo["cuts_where_hook_listing_and_fsynced_names_differ"] = namesDiffer
		straceInfo["manifest_syncs_seen_by_strace_but_not_by_wrapped_syncFunc"] = msyncDisagree
	}
	for i := range runs {
		os.RemoveAll(runs[i].dir)
	}
	c.Extra["correspondence_skipped"] = skips
	return nil
}

func (e *crashEnv) powerJob(k int, run *crashPowerRun, cut int, fixDir, fixZero bool) crashResult {
	wl, s, evs := run.wl, &run.s, run.evs
	r := crashResult{k: k, wl: wl.name, mech: "power-loss"}
	hook := ""
	for _, ev := range evs {
		if ev.Seq == cut {
			hook = ev.Name
			if ev.Kind != "H" {
				hook = ev.Kind
			}
		}
	}
	dir := filepath.Join(e.scratch, fmt.Sprintf("img%d", k))
	os.MkdirAll(dir, 0o755)
	defer os.RemoveAll(dir)
	img := filepath.Join(dir, "db")
	names, synced := crashMaterialise(run.durableNames(cut), s.SnapDir, run.vidx, cut, img)
	r.desc = crashJ{"cut_seq": cut, "hook": hook, "durable_names": names, "synced_at": synced}
	if run.st != nil {
		r.desc["ground_truth"] = "strace: names of the last completed fsync of the directory; a snapshot counts only if a real sync covers the file's last modification"
		hn := map[string]bool{}
		for _, n := range crashDurableNames(evs, cut) {
			if n != "LOCK" {
				hn[n] = true
			}
		}
		same := len(hn) == len(names)
		for _, n := range names {
			same = same && hn[n]
		}
		if !same {
			r.desc["hook_log_names_differ"] = crashDurableNames(evs, cut)
		}
	} else {
		r.desc["ground_truth"] = "hook log; MANIFEST snapshots only where the wrapped syncFunc was called"
	}
	var notDurable []string
	var firstBad *crashClaim
	for i, cl := range run.claims {
		if !cl.ok && cl.seq <= cut && cl.name != "" && !strings.HasPrefix(cl.kind, "ack-") && len(notDurable) < 12 {
			notDurable = append(notDurable, fmt.Sprintf("%s@%d (%s)", cl.name, cl.seq, cl.hook))
			if firstBad == nil {
				firstBad = &run.claims[i]
			}
		}
	}
	if len(notDurable) > 0 {
		r.desc["snapshots_rejected_no_real_sync"] = notDurable
	}
	r.acked, r.issued = crashAcked(evs, cut)
	ps := *s
	ps.Dir = img
	e2 := *e
	e2.scratch = dir
	r.po, r.perr = e2.probe(&ps)
	if r.po == nil {
		r.sig, r.what = "harness-probe-died", r.perr
		return r
	}
	has := func(n string) bool {
		for _, x := range names {
			if x == n {
				return true
			}
		}
		return false
	}
	walOf, vlogOf := crashLocate(s, evs, cut)
	if r.po.OpenErr != "" {
		r.sig = crashOpenSig("C10", r.po.OpenErr)
		r.what = "Open on the power-loss image: " + r.po.OpenErr
	} else {
		r.verdict = crashOracle(s, r.issued, r.acked, r.po)
		r.sig, r.what = r.verdict.Sig, r.verdict.What
		switch r.sig {
		case "c08-acked-commit-lost":
			lost := r.verdict.N + 1
			if f, ok := walOf[lost]; ok && !has(fmt.Sprintf("%05d.mem", f)) {
				// was the name ever covered by a directory fsync? If it was and is gone again, the
				// WAL has been deleted: the loss is not the F9 defect
				ever := false
				wn := fmt.Sprintf("%05d.mem", f)
				if run.st != nil {
					for _, d := range run.st.dirSyncs {
						for _, n := range d.names {
							if n == wn && d.exit < run.st.marker[cut] {
								ever = true
							}
						}
					}
				} else {
					for i, ev := range evs {
						if ev.Seq <= cut && ev.Kind == "H" && ev.Name == "persist.syncdir.done" && i+1 < len(evs) && evs[i+1].Kind == "LS" && crashHas(evs[i+1].Rest, wn) {
							ever = true
						}
					}
				}
				if !ever {
					r.sig = "F9-acked-commit-lost-wal-name-not-dirsynced"
					r.what += fmt.Sprintf("; its WAL %05d.mem was created without a directory fsync", f)
				} else {
					r.what += fmt.Sprintf("; its WAL %05d.mem has been deleted (durably) and no synced MANIFEST state lists a table holding the commit", f)
				}
			}
		case "c08-value-unreadable":
			// which commit? the one whose vlog file name is not durable
			for ci, f := range vlogOf {
				if !has(fmt.Sprintf("%06d.vlog", f)) && ci <= r.verdict.N {
					r.sig = "F9-acked-value-lost-vlog-name-not-dirsynced"
					r.what += fmt.Sprintf("; value log file %06d.vlog was created without a directory fsync", f)
					break
				}
			}
		}
		if strings.HasPrefix(r.sig, "c08-") {
			r.sig = "c10-" + r.sig[4:]
		}
	}
	if r.sig != "" && run.st != nil {
		if firstBad != nil && firstBad.v.pos > 0 {
			from := firstBad.v.lastDirty - 6
			if firstBad.v.pos-from > 300 {
				from = firstBad.v.pos - 300
			}
			r.desc["syscall_window_of_the_first_rejected_snapshot"] = run.st.window(from, firstBad.v.pos+2, 30)
		}
		if pos, ok := run.st.marker[cut]; ok {
			r.desc["syscall_window_before_the_cut"] = run.st.window(pos-70, pos, 30)
		}
	}
	if !wl.model {
		r.skipWhy = "workload with compaction: oracle only"
		return r
	}
	if run.st != nil {
		// the trace gets its SyncDir events at the persist.syncdir.done hooks; a directory fsync
		// that completed before the cut while its hook had not yet fired is in the image only
		claimed := -1
		for _, ev := range evs {
			if ev.Seq > cut {
				break
			}
			if i, ok := run.st.dirClaim[ev.Seq]; ok && i > claimed {
				claimed = i
			}
		}
		if run.st.lastDirSync(cut) > claimed {
			r.skipWhy = "a directory fsync had completed whose hook had not fired at the cut"
			return r
		}
	}
	t := crashBuildTrace(s, evs, cut, run.gt)
	if !t.ok {
		r.skipWhy = t.why
		return r
	}
	for ci, ver := range r.verdict.Versions {
		if uint64(ci) != ver {
			r.sig, r.what = "harness-version-assumption", fmt.Sprintf("commit %d has version %d", ci, ver)
			return r
		}
	}
	ents := "[]"
	if r.po.OpenErr == "" {
		var ok bool
		ents, ok = crashEntsTerm(s, r.po, r.issued)
		if !ok {
			r.skipWhy = "an entry could not be attributed"
			return r
		}
	}
	r.term = fmt.Sprintf("(CPower %s %s %s %s)", crashCfgTerm(true, fixDir, fixZero), ListOf(t.evs), Bool(r.po.OpenErr == ""), ents)
	return r
}


// true iff, in this log, every new WAL, flushed table and value-log file has its name covered
// by a directory fsync before the first event that relies on it (the F9 witnesses no longer
// reproduce); needs at least one rotation and one flush in the log
func crashDirsyncRepaired(evs []crashEvent) (repaired, conclusive bool) {
	durable := ""
	needWal, needSst, needVlog := "", "", ""
	sawRot, sawFlush, sawVlog := false, false, false
	ok := true
	for i, ev := range evs {
		if ev.Kind != "H" {
			continue
		}
		switch ev.Name {
		case "persist.syncdir.done":
			if i+1 < len(evs) && evs[i+1].Kind == "LS" {
				durable = evs[i+1].Rest
			}
		case "persist.mem.rotated":
			needWal = fmt.Sprintf("%05d.mem", ev.Args[0])
			sawRot = true
		case "persist.vlog.created":
			needVlog = fmt.Sprintf("%06d.vlog", ev.Args[0])
		case "persist.vlog.written":
			if ev.Args[2] > 0 {
				sawVlog = true
			}
		case "persist.flush.table":
			needSst = fmt.Sprintf("%06d.sst", ev.Args[0])
			sawFlush = true
		case "persist.manifest.done":
			if needSst != "" && !crashHas(durable, needSst) {
				ok = false
			}
			needSst = ""
		case "persist.batch.ack":
			if needWal != "" && !crashHas(durable, needWal) {
				ok = false
			}
			needWal = ""
			if sawVlog && needVlog != "" && !crashHas(durable, needVlog) {
				ok = false
			}
		}
	}
	return ok && sawRot && sawFlush && sawVlog, sawRot && sawFlush && sawVlog
}


// managed mode: a write batch whose entries carry their own versions (WriteBatch.SetEntryAt) is
// one request written WITHOUT transaction markers (txn.go commitAndSend, keepTogether = false);
// killed after its second WAL record, the batch is recovered partially
func (e *crashEnv) managedJob(k int) crashResult {
	r := crashResult{k: k, wl: "managed-batch", mech: "managed-batch", skipWhy: "managed batch without markers: outside the model (oracle only)"}
	e2 := *e
	dir := filepath.Join(e.scratch, fmt.Sprintf("k%d", k))
	os.RemoveAll(dir)
	os.MkdirAll(filepath.Join(dir, "db"), 0o755)
	defer os.RemoveAll(dir)
	e2.scratch = dir
	s := crashSpec{Dir: filepath.Join(dir, "db"), EventLog: filepath.Join(dir, "ev.log"), SnapDir: dir, NCommits: 5, First: 1,
		MemSize: 8 << 10, Managed: true, ExitName: "persist.wal.put", ExitOcc: 8}
	r.desc = crashJ{"exit_hook": s.ExitName, "occurrence": s.ExitOcc, "note": "third batch, after its second of three WAL records"}
	r.childR = e2.runChild(&s, 0)
	evs := crashReadLog(s.EventLog)
	r.nEvents = len(evs)
	r.acked, r.issued = crashAcked(evs, 0)
	r.po, r.perr = e2.probe(&s)
	if r.po == nil {
		r.sig, r.what = "harness-probe-died", r.perr
		return r
	}
	if r.po.OpenErr != "" {
		r.sig, r.what = crashOpenSig("C08", r.po.OpenErr), "Open after the crash: "+r.po.OpenErr
		return r
	}
	cnt := map[int]int{}
	for _, en := range r.po.Entries {
		if ci := crashCommitOfValue(en.Val); ci > 0 {
			cnt[ci]++
		}
	}
	for ci := 1; ci <= r.issued; ci++ {
		if cnt[ci] != 0 && cnt[ci] != 3 {
			r.sig = "F28-managed-batch-without-txn-markers-partially-recovered"
			r.what = fmt.Sprintf("managed write batch %d (3 entries with per-entry versions, one request): %d of 3 entries recovered", ci, cnt[ci])
			return r
		}
		if cnt[ci] == 0 && ci <= r.acked {
			r.sig, r.what = "c08-acked-commit-lost", fmt.Sprintf("managed batch %d was acknowledged and is missing", ci)
			return r
		}
	}
	return r
}


type crashCompact struct {
	this, next     int
	top, bot, news []uint64
}

// "0 2 top=[1 2] bot=[] new=[7 8]"
func crashParseCompact(rest string) (crashCompact, bool) {
	var cp crashCompact
	fs := strings.SplitN(rest, " ", 3)
	if len(fs) < 3 {
		return cp, false
	}
	cp.this, _ = strconv.Atoi(fs[0])
	cp.next, _ = strconv.Atoi(fs[1])
	list := func(tag string) ([]uint64, bool) {
		i := strings.Index(fs[2], tag+"=[")
		if i < 0 {
			return nil, false
		}
		r := fs[2][i+len(tag)+2:]
		j := strings.Index(r, "]")
		if j < 0 {
			return nil, false
		}
		var out []uint64
		for _, x := range strings.Fields(r[:j]) {
			n, err := strconv.ParseUint(x, 10, 64)
			if err != nil {
				return nil, false
			}
			out = append(out, n)
		}
		return out, true
	}
	var ok1, ok2, ok3 bool
	cp.top, ok1 = list("top")
	cp.bot, ok2 = list("bot")
	cp.news, ok3 = list("new")
	return cp, ok1 && ok2 && ok3
}
