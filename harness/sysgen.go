package main

import (
	"bytes"
	"fmt"
)

// profile = relative weights of the history generator
type profile struct {
	name                                                     string
	wBegin, wModify, wGet, wIter, wCommit, wDiscard          int
	wFlush, wCompact, wL0L0, wDump, wSetDiscard, wMaxVersion int
	managed                                                  bool
	nOps                                                     int
	keys                                                     [][]byte
	allVersions, reverse, prefix, since, expiry, discardBit  bool
	nkeeps                                                   []int
	detect                                                   bool
	bigValues                                                bool
	monotone                                                 bool // managed: commit timestamps non-decreasing
	deepFirst                                                bool // prefer compacting the deepest non-empty level
	wBatch                                                   int
	memSize                                                  int64
	dupVersions                                              bool  // batches may write the same key@version twice
	valLen                                                   int   // > 0: values of about this length (fills tables faster)
	tableSize                                                int64 // > 0: fixed BaseTableSize
	prefixSince                                              bool  // Prefix iterators use SinceTs half of the time
	batchMax                                                 int   // > 0: WriteBatch calls per batch are 1..batchMax
	flushAfterBatch                                          bool  // explicit Flush after every WriteBatch
	finalCompact                                             bool  // flush and compact everything at the end, then scan all versions
}

var keySetA = [][]byte{[]byte("a"), []byte("ab"), []byte("abc"), []byte("b"), {'b', 0}, {'b', 0xff}, []byte("c"), {0}, {0xff}, {0xff, 0xff}, []byte("ba"), []byte("a\x00b")}

func (c *Ctx) pickKey(p *profile) []byte { return p.keys[c.Rng.Intn(len(p.keys))] }

func (c *Ctx) value(p *profile) []byte {
	n := c.Rng.Intn(6)
	if p.valLen > 0 {
		n = p.valLen + c.Rng.Intn(4)
	}
	if p.bigValues && c.Rng.Intn(3) == 0 {
		n = 30 + c.Rng.Intn(20) // around the value threshold (32): inline or value log
	}
	v := make([]byte, n)
	for i := range v {
		v[i] = byte('0' + c.Rng.Intn(10))
	}
	return v
}

// runHistory generates and executes one history; returns the hist (closed) for the case term
func runHistory(c *Ctx, p *profile) (*hist, error) {
	o := sysOpts{Managed: p.managed, Detect: p.detect, NKeep: p.nkeeps[c.Rng.Intn(len(p.nkeeps))], MaxLevels: 4,
		VThreshold: 32, TableSize: int64(256) << uint(c.Rng.Intn(5)), BaseLevelSize: []int64{200, 600, 2 << 10, 8 << 10}[c.Rng.Intn(4)]}
	o.MemSize = p.memSize
	if p.tableSize > 0 {
		o.TableSize = p.tableSize
	}
	// storage-format options vary freely: none of them may change a result
	if c.Rng.Intn(3) == 0 {
		o.Compression = 1 + c.Rng.Intn(3)
	}
	if c.Rng.Intn(4) == 0 {
		o.Checksums = 1 + c.Rng.Intn(3)
	}
	if c.Rng.Intn(4) == 0 {
		o.BlockSize = []int{32, 128, 4096}[c.Rng.Intn(3)]
	}
	h, err := newHist(c, o)
	if err != nil {
		return nil, err
	}
	defer h.close()
	nextT := 0
	var mts uint64 = 1 // managed: last used commit ts
	var discardTs uint64
	open := func() []int {
		var ids []int
		for id := range h.txns {
			ids = append(ids, id)
		}
		// deterministic order
		for i := 0; i < len(ids); i++ {
			for j := i + 1; j < len(ids); j++ {
				if ids[j] < ids[i] {
					ids[i], ids[j] = ids[j], ids[i]
				}
			}
		}
		return ids
	}
	total := p.wBegin + p.wModify + p.wGet + p.wIter + p.wCommit + p.wDiscard + p.wFlush + p.wCompact + p.wL0L0 + p.wDump + p.wSetDiscard + p.wMaxVersion + p.wBatch
	for step := 0; step < p.nOps; step++ {
		r := c.Rng.Intn(total)
		ids := open()
		pick := func() int { return ids[c.Rng.Intn(len(ids))] }
		switch {
		case r < p.wBegin || len(ids) == 0:
			if len(ids) >= 3 {
				continue
			}
			upd := c.Rng.Intn(4) != 0
			at := uint64(0)
			if p.managed {
				// read at or above the discard timestamp (caller contract of managed mode)
				at = discardTs + uint64(c.Rng.Intn(int(mts-discardTs)+3))
			}
			h.begin(nextT, upd, at)
			nextT++
		case r < p.wBegin+p.wModify:
			t := pick()
			k := c.pickKey(p)
			meta, umeta, exp := byte(0), byte(c.Rng.Intn(3)), uint64(0)
			switch c.Rng.Intn(8) {
			case 0, 1:
				meta = mDelete
			case 2:
				if p.discardBit {
					meta = mDiscard
				}
			case 3:
				if p.expiry {
					if c.Rng.Intn(2) == 0 {
						exp = 1 // long expired
					} else {
						exp = 1 << 40 // far future
					}
				}
			}
			if c.Rng.Intn(40) == 0 {
				k = nil // rejected: empty key
			} else if c.Rng.Intn(40) == 0 {
				k = []byte("!badger!x") // rejected: reserved prefix
			}
			h.modify(t, k, c.value(p), meta, umeta, exp)
		case r < p.wBegin+p.wModify+p.wGet:
			h.get(pick(), c.pickKey(p))
		case r < p.wBegin+p.wModify+p.wGet+p.wIter:
			t := pick()
			o := itOpts{Prefetch: c.Rng.Intn(2) == 0, PrefetchSize: c.Rng.Intn(4)}
			if p.reverse && c.Rng.Intn(3) == 0 {
				o.Reverse = true
			}
			if p.allVersions && c.Rng.Intn(4) == 0 {
				o.All = true
			}
			var seek []byte
			if p.prefix && c.Rng.Intn(3) == 0 {
				o.Prefix = [][]byte{[]byte("a"), []byte("b"), []byte("ab"), {0xff}}[c.Rng.Intn(4)]
				if c.Rng.Intn(3) == 0 {
					seek = append(append([]byte{}, o.Prefix...), c.pickKey(p)...) // inside the prefix
				} else if k := c.pickKey(p); c.Rng.Intn(3) == 0 && !o.Reverse && !h.tupd[t] && bytes.Compare(k, o.Prefix) < 0 && len(k) > 0 {
					// below the prefix (finding F33): must land on the first key of the prefix.
					// Read-only transactions only: Seek records the caller's key as read.
					seek = k
				}
			} else if c.Rng.Intn(3) == 0 {
				seek = c.pickKey(p)
				if c.Rng.Intn(3) == 0 {
					seek = append(append([]byte{}, seek...), 0x01)
				}
			}
			if p.allVersions && len(o.Prefix) == 0 && c.Rng.Intn(8) == 0 && !o.Reverse {
				o.PrefixIsKey = true
				o.Prefix = c.pickKey(p)
				seek = nil
			}
			if p.since && (c.Rng.Intn(5) == 0 || (p.prefixSince && len(o.Prefix) > 0 && c.Rng.Intn(2) == 0)) {
				o.Since = uint64(c.Rng.Intn(int(h.db.VerifNextTs()) + 1))
			}
			h.iterate(t, o, seek)
		case r < p.wBegin+p.wModify+p.wGet+p.wIter+p.wCommit:
			t := pick()
			at := uint64(0)
			if p.managed {
				if p.monotone {
					mts += uint64(c.Rng.Intn(3))
				} else {
					mts = 1 + uint64(c.Rng.Intn(int(mts)+3))
				}
				if mts == 0 {
					mts = 1
				}
				at = mts
			}
			h.commit(t, at)
		case r < p.wBegin+p.wModify+p.wGet+p.wIter+p.wCommit+p.wDiscard:
			h.discard(pick())
		case r < p.wBegin+p.wModify+p.wGet+p.wIter+p.wCommit+p.wDiscard+p.wFlush:
			if err := h.flush(); err != nil {
				return h, err
			}
		case r < p.wBegin+p.wModify+p.wGet+p.wIter+p.wCommit+p.wDiscard+p.wFlush+p.wCompact:
			lvl := 0
			if c.Rng.Intn(2) == 0 {
				// a non-empty level, if any
				d := h.db.VerifDump()
				var ne []int
				for l := range d {
					if len(d[l]) > 0 {
						ne = append(ne, l)
					}
				}
				if len(ne) > 0 {
					lvl = ne[c.Rng.Intn(len(ne))]
				}
			}
			if _, err := h.compact(lvl, false, nil); err != nil {
				return h, fmt.Errorf("compact: %w", err)
			}
			if c.Rng.Intn(2) == 0 {
				h.dump()
			}
		case r < p.wBegin+p.wModify+p.wGet+p.wIter+p.wCommit+p.wDiscard+p.wFlush+p.wCompact+p.wL0L0:
			if _, err := h.compact(0, true, nil); err != nil {
				return h, fmt.Errorf("compact l0l0: %w", err)
			}
		case r < p.wBegin+p.wModify+p.wGet+p.wIter+p.wCommit+p.wDiscard+p.wFlush+p.wCompact+p.wL0L0+p.wDump:
			h.dump()
		case r < p.wBegin+p.wModify+p.wGet+p.wIter+p.wCommit+p.wDiscard+p.wFlush+p.wCompact+p.wL0L0+p.wDump+p.wSetDiscard:
			if p.managed {
				// never above the read timestamp of an open transaction (caller contract)
				lim := mts
				for _, id := range ids {
					if rt := h.txns[id].VerifReadTs(); rt < lim {
						lim = rt
					}
				}
				if lim > discardTs {
					discardTs += uint64(c.Rng.Intn(int(lim-discardTs) + 1))
					h.setDiscard(discardTs)
				}
			}
		case r < p.wBegin+p.wModify+p.wGet+p.wIter+p.wCommit+p.wDiscard+p.wFlush+p.wCompact+p.wL0L0+p.wDump+p.wSetDiscard+p.wBatch:
			bm := 12
			if p.batchMax > 0 {
				bm = p.batchMax
			}
			n := 1 + c.Rng.Intn(bm)
			kind := 0
			var bts uint64
			if p.managed {
				kind = 1 + c.Rng.Intn(2)
				if p.detect && discardTs > 0 {
					// finding F19: NewManagedWriteBatch commits at ts 0 and trips the
					// `ts >= lastCleanupTs` assertion (process abort) once SetDiscardTs ran with
					// conflict detection on; exercised only by its witness
					kind = 1
				}
				if p.monotone {
					mts += 1 + uint64(c.Rng.Intn(2))
				} else {
					mts = 1 + uint64(c.Rng.Intn(int(mts)+3))
				}
				bts = mts
			}
			var calls []batchCall
			for j := 0; j < n; j++ {
				cl := batchCall{Key: c.pickKey(p), Val: c.value(p), UMeta: byte(c.Rng.Intn(3)), Del: c.Rng.Intn(5) == 0}
				if kind == 2 {
					if p.monotone {
						cl.Ver = mts + uint64(c.Rng.Intn(3))
					} else {
						cl.Ver = 1 + uint64(c.Rng.Intn(int(mts)+3))
					}
					if !p.dupVersions {
						// distinct versions per key inside the batch
						for _, o := range calls {
							if string(o.Key) == string(cl.Key) && o.Ver == cl.Ver {
								cl.Ver = 0
							}
						}
						if cl.Ver == 0 {
							continue
						}
					}
					if cl.Ver > mts {
						mts = cl.Ver
					}
				}
				calls = append(calls, cl)
			}
			nextT = h.batch(nextT, kind, bts, calls)
			if p.flushAfterBatch {
				// tiny memtable: keep it from filling up (the implicit rotation of
				// ensureRoomForWrite is not part of these histories' model)
				if err := h.flush(); err != nil {
					return h, err
				}
			}
		default:
			h.maxVersion()
		}
	}
	if p.finalCompact {
		for id := range h.txns {
			h.discard(id)
		}
		if !p.managed {
			// let the read watermark pass every commit
			h.begin(nextT, false, 0)
			h.discard(nextT)
			nextT++
			h.begin(nextT, false, 0)
			h.discard(nextT)
			nextT++
		}
		if err := h.flush(); err != nil {
			return h, err
		}
		for i := 0; i < 3; i++ {
			if _, err := h.compact(0, false, nil); err != nil {
				return h, fmt.Errorf("final compact: %w", err)
			}
		}
		at := uint64(0)
		if p.managed {
			at = mts + 1
		}
		h.begin(nextT, false, at)
		h.iterate(nextT, itOpts{All: true}, nil)
		h.discard(nextT)
		nextT++
	}
	// final reads of every key by a fresh transaction, then a dump
	at := uint64(0)
	if p.managed {
		at = mts + 1
	}
	h.begin(nextT, false, at)
	for _, k := range p.keys {
		h.get(nextT, k)
	}
	h.iterate(nextT, itOpts{}, nil)
	h.iterate(nextT, itOpts{Reverse: true}, nil)
	h.discard(nextT)
	h.dump()
	return h, nil
}

func runSysProfile(c *Ctx, mk func(i int) *profile) error {
	c.Setup("Keys Spec Lsm Compact Iter Sys CorrSys", "run_case")
	if err := runScenarios(c, c.Prop); err != nil {
		return err
	}
	for i := 0; c.nCases < c.N; i++ {
		p := mk(i)
		h, err := runHistory(c, p)
		if err != nil {
			if h != nil {
				c.Oracle(false, "harness-error:"+p.name, err.Error(), J{"history": h.desc})
			}
			return err
		}
		c.Case(p.name, h.term(), histInput(h))
		c.Count(fmt.Sprintf("compactions=%d", min(h.nCompact, 5)))
		c.Count(fmt.Sprintf("flushes=%d", min(h.nFlush, 5)))
	}
	return nil
}

func min(a, b int) int {
	if a < b {
		return a
	}
	return b
}

func init() {
	register("C01", func(c *Ctx) error {
		if err := runReadersVsCompactions(c); err != nil {
			return err
		}
		return runSysProfile(c, func(i int) *profile {
			return &profile{name: "snapshot", wBegin: 6, wModify: 14, wGet: 12, wIter: 5, wCommit: 7, wDiscard: 2, wFlush: 4, wCompact: 4, wDump: 1,
				nOps: 30 + c.Rng.Intn(40), keys: keySetA[:4+c.Rng.Intn(8)], allVersions: true, reverse: true, prefix: true, expiry: true,
				nkeeps: []int{1, 2, 100}, detect: true, bigValues: true}
		})
	})
}

// histInput: the canonical description of a history (hashed for distinctness; a prefix is
// kept readable for the evidence samples)
func histInput(h *hist) J {
	d := h.desc
	if len(d) > 25 {
		d = d[:25]
	}
	return J{"n_labels": len(h.desc), "first_labels": d, "digest": digest(h.desc)}
}
