package main

// C35 — directory locking.  Open/Close sequences on real directories, with DB handles in this
// process and in helper processes (this binary re-executed with VERIF_C35_HELPER=1; the helper
// loop lives in init() below because main.go is shared).  Every label carries what the
// implementation returned (ok / lock refused / other failure) and the content of the advisory
// pid files; the Coq model (coq/C/Lock.v via corr/CorrC35.v) replays the labels.
// Property oracle (no model involved): a granted open never coexists with a conflicting
// holder; a refused open always has a conflicting live holder.

import (
	"bufio"
	"encoding/json"
	"fmt"
	"os"
	"os/exec"
	"path/filepath"
	"strconv"
	"strings"
	"syscall"

	badger "github.com/dgraph-io/badger/v4"
	"github.com/dgraph-io/badger/v4/options"
)

func init() {
	if os.Getenv("VERIF_C35_HELPER") == "1" {
		c35Helper()
		os.Exit(0)
	}
	register("C35", runC35)
}

type c35Req struct {
	Op     string `json:"op"`
	ID     int    `json:"id"`
	Dir    string `json:"dir"`
	VDir   string `json:"vdir"`
	RO     bool   `json:"ro"`
	Bypass bool   `json:"bypass"`
}
type c35Resp struct {
	Res string `json:"res"` // ok | lock | other
	Msg string `json:"msg"`
}

func c35Open(r c35Req) (*badger.DB, c35Resp) {
	opt := badger.DefaultOptions(r.Dir).WithValueDir(r.VDir).WithLoggingLevel(badger.ERROR).
		WithNumCompactors(0).WithMemTableSize(1 << 20).WithValueLogFileSize(1 << 20).
		WithNumMemtables(2).WithValueThreshold(1024).WithMetricsEnabled(false).WithCompactL0OnClose(false).
		WithBlockCacheSize(0).WithIndexCacheSize(0).WithCompression(options.None).WithReadOnly(r.RO).WithBypassLockGuard(r.Bypass).
		WithLogger(nil)
	db, err := badger.Open(opt)
	if err == nil {
		return db, c35Resp{Res: "ok"}
	}
	if strings.Contains(err.Error(), "Cannot acquire directory lock") {
		return nil, c35Resp{Res: "lock", Msg: err.Error()}
	}
	return nil, c35Resp{Res: "other", Msg: err.Error()}
}

func c35Helper() {
	dbs := map[int]*badger.DB{}
	in := bufio.NewReader(os.Stdin)
	out := json.NewEncoder(os.Stdout)
	for {
		line, err := in.ReadBytes('\n')
		if err != nil {
			return
		}
		var r c35Req
		if json.Unmarshal(line, &r) != nil {
			return
		}
		switch r.Op {
		case "open":
			db, resp := c35Open(r)
			if db != nil {
				dbs[r.ID] = db
			}
			out.Encode(resp)
		case "close":
			resp := c35Resp{Res: "ok"}
			if db := dbs[r.ID]; db != nil {
				if err := db.Close(); err != nil {
					resp = c35Resp{Res: "other", Msg: err.Error()}
				}
				delete(dbs, r.ID)
			} else {
				resp = c35Resp{Res: "other", Msg: "no such handle"}
			}
			out.Encode(resp)
		case "pid":
			out.Encode(c35Resp{Res: "ok", Msg: strconv.Itoa(os.Getpid())})
		default:
			return
		}
	}
}

type c35Proc struct {
	num int // model process number (unique per incarnation); 0 = this process
	cmd *exec.Cmd
	in  *bufio.Writer
	out *bufio.Reader
	pid int
}

func (p *c35Proc) call(r c35Req) (c35Resp, error) {
	js, _ := json.Marshal(r)
	p.in.Write(js)
	p.in.WriteByte('\n')
	if err := p.in.Flush(); err != nil {
		return c35Resp{}, err
	}
	line, err := p.out.ReadBytes('\n')
	if err != nil {
		return c35Resp{}, err
	}
	var resp c35Resp
	err = json.Unmarshal(line, &resp)
	return resp, err
}

type c35Handle struct {
	id     int // model handle id (count of successful opens in this case)
	slot   int
	proc   int
	dir    int
	vdir   int
	ro     bool
	bypass bool
	db     *badger.DB // slot 0 only
}

type c35Run struct {
	c        *Ctx
	slots    [3]*c35Proc // slot 0 = in-process
	nextProc int
	pidProc  map[int]int // OS pid -> model process number
	base     string
	nCase    int
}

func (r *c35Run) proc(slot int) (*c35Proc, error) {
	if r.slots[slot] != nil {
		return r.slots[slot], nil
	}
	if slot == 0 {
		r.slots[0] = &c35Proc{num: 0, pid: os.Getpid()}
		r.pidProc[os.Getpid()] = 0
		return r.slots[0], nil
	}
	exe, err := os.Executable()
	if err != nil {
		return nil, err
	}
	cmd := exec.Command(exe)
	cmd.Env = append(os.Environ(), "VERIF_C35_HELPER=1")
	cmd.Stderr = os.Stderr
	stdin, err := cmd.StdinPipe()
	if err != nil {
		return nil, err
	}
	stdout, err := cmd.StdoutPipe()
	if err != nil {
		return nil, err
	}
	if err := cmd.Start(); err != nil {
		return nil, err
	}
	r.nextProc++
	p := &c35Proc{num: r.nextProc, cmd: cmd, in: bufio.NewWriter(stdin), out: bufio.NewReader(stdout), pid: cmd.Process.Pid}
	resp, err := p.call(c35Req{Op: "pid"})
	if err != nil || resp.Msg != strconv.Itoa(p.pid) {
		return nil, fmt.Errorf("C35 helper handshake failed: %v %q", err, resp.Msg)
	}
	r.pidProc[p.pid] = p.num
	r.slots[slot] = p
	return p, nil
}

func (r *c35Run) kill(slot int) {
	p := r.slots[slot]
	if p == nil || slot == 0 {
		return
	}
	p.cmd.Process.Signal(syscall.SIGKILL)
	p.cmd.Wait()
	r.slots[slot] = nil
}

func (r *c35Run) shutdown() {
	for s := 1; s < len(r.slots); s++ {
		r.kill(s)
	}
}

// per directory, what the harness knows about the files in it (ground truth for the non-lock
// part of Open): a MANIFEST exists after the first successful read-write open; the memtable WAL
// is untruncated while a read-write instance is live or after one was killed.
type c35Dir struct {
	path     string
	exists   bool
	manifest bool
	dirty    bool // a killed read-write instance left an untruncated .mem file
}

const c35NDirs = 4

func (r *c35Run) oneCase() error {
	c := r.c
	r.nCase++
	root := filepath.Join(r.base, fmt.Sprintf("c%d", r.nCase))
	if err := os.MkdirAll(root, 0o755); err != nil {
		return err
	}
	defer os.RemoveAll(root)
	dirs := make([]*c35Dir, c35NDirs)
	for i := range dirs {
		dirs[i] = &c35Dir{path: filepath.Join(root, fmt.Sprintf("d%d", i))}
		if i < c35NDirs-1 {
			os.Mkdir(dirs[i].path, 0o755)
			dirs[i].exists = true
			// alias: a second path string for the same directory
			os.Symlink(dirs[i].path, filepath.Join(root, fmt.Sprintf("l%d", i)))
		}
	}
	var live []*c35Handle
	nOpened := 0
	var terms, desc []string
	nLabels := 6 + c.Rng.Intn(14)
	// profile: how much the case concentrates on one directory
	focus := c.Rng.Intn(3)
	pickDir := func() int {
		switch focus {
		case 0:
			return c.Rng.Intn(2)
		case 1:
			return c.Rng.Intn(3)
		}
		return c.Rng.Intn(c35NDirs)
	}
	readPids := func() string {
		var items []string
		for i, d := range dirs {
			if !d.exists {
				continue
			}
			b, err := os.ReadFile(filepath.Join(d.path, "LOCK"))
			if err != nil {
				items = append(items, fmt.Sprintf("(%d, None)", i))
				continue
			}
			pid, _ := strconv.Atoi(strings.TrimSpace(string(b)))
			pn, ok := r.pidProc[pid]
			if !ok {
				pn = 999
			}
			items = append(items, fmt.Sprintf("(%d, Some %d)", i, pn))
		}
		return ListOf(items)
	}
	// liveRW(d): some live read-write instance (bypassing or not) uses d as its Dir
	liveRW := func(d int) bool {
		for _, h := range live {
			if !h.ro && h.dir == d {
				return true
			}
		}
		return false
	}
	closeAll := func() {
		for _, h := range live {
			if h.slot == 0 && h.db != nil {
				h.db.Close()
			} else if p := r.slots[h.slot]; p != nil {
				p.call(c35Req{Op: "close", ID: h.id})
			}
		}
		live = nil
	}
	defer closeAll()

	for li := 0; li < nLabels; li++ {
		x := c.Rng.Intn(100)
		switch {
		case x < 58 || len(live) == 0: // Open
			slot := c.Rng.Intn(3)
			if c.Rng.Intn(3) == 0 {
				slot = 0
			}
			p, err := r.proc(slot)
			if err != nil {
				return err
			}
			d := pickDir()
			v := d
			vpath := dirs[d].path
			switch c.Rng.Intn(10) {
			case 0, 1, 2:
				v = pickDir()
				vpath = dirs[v].path
			case 3:
				if dirs[d].exists && d < c35NDirs-1 { // ValueDir = symlink to Dir
					vpath = filepath.Join(root, fmt.Sprintf("l%d", d))
				}
			case 4:
				v = pickDir()
				vpath = dirs[v].path
				if v < c35NDirs-1 { // ValueDir through a symlink
					vpath = filepath.Join(root, fmt.Sprintf("l%d", v))
				}
			}
			ro := c.Rng.Intn(5) < 2
			bypass := false
			// bypass only where two instances on one directory cannot damage each other's files:
			// a read-only bypassing open, or a read-write one on directories nobody uses
			if c.Rng.Intn(8) == 0 {
				if ro {
					bypass = true
				} else {
					used := false
					for _, h := range live {
						if h.dir == d || h.vdir == d || h.dir == v || h.vdir == v {
							used = true
						}
					}
					bypass = !used
				}
			}
			if !ro && !bypass {
				// a non-bypassing read-write open next to a live bypassing instance would share files
				for _, h := range live {
					if h.bypass && !h.ro && (h.dir == d || h.vdir == d || h.dir == v || h.vdir == v) {
						ro = true
					}
				}
			}
			ad, _ := filepath.Abs(dirs[d].path)
			av, _ := filepath.Abs(vpath)
			same := ad == av
			// ground truth for the rest of Open
			env := "EnvOk"
			if ro {
				if !dirs[d].exists || !dirs[v].exists {
					env = "EnvPre"
				} else if !dirs[d].manifest || dirs[d].dirty || liveRW(d) {
					env = "EnvRest"
				}
			}
			req := c35Req{Op: "open", ID: nOpened, Dir: dirs[d].path, VDir: vpath, RO: ro, Bypass: bypass}
			var resp c35Resp
			var db *badger.DB
			if slot == 0 {
				db, resp = c35Open(req)
			} else {
				resp, err = p.call(req)
				if err != nil {
					return fmt.Errorf("C35 helper call: %v", err)
				}
			}
			// property oracle
			conflict := false
			selfc := !bypass && !ro && !same && d == v
			for _, h := range live {
				if h.bypass {
					continue
				}
				for _, hd := range []int{h.dir, h.vdir} {
					if (hd == d || hd == v) && (!h.ro || !ro) {
						conflict = true
					}
				}
			}
			rp := J{"case": r.nCase, "label": li, "desc": append(append([]string{}, desc...), fmt.Sprintf("open p%d ro=%v d%d v%d(%s) bypass=%v -> %s", p.num, ro, d, v, filepath.Base(vpath), bypass, resp.Res))}
			if !bypass {
				c.Oracle(!(resp.Res == "ok" && conflict), "C35-second-holder-admitted", "an open was granted while a conflicting holder of the directory is live: "+resp.Msg, rp)
				c.Oracle(!(resp.Res == "lock" && !conflict && !selfc), "C35-lock-refused-without-holder", "an open was refused although no conflicting holder is live (lock not released?): "+resp.Msg, rp)
			} else {
				c.Oracle(resp.Res != "lock", "C35-bypass-took-lock", "a BypassLockGuard open was refused by the lock: "+resp.Msg, rp)
			}
			res := "RLockFail"
			switch resp.Res {
			case "ok":
				res = fmt.Sprintf("(ROk %d)", nOpened)
				live = append(live, &c35Handle{id: nOpened, slot: slot, proc: p.num, dir: d, vdir: v, ro: ro, bypass: bypass, db: db})
				nOpened++
				if !ro {
					for _, i := range []int{d, v} {
						dirs[i].exists = true
					}
					dirs[d].manifest = true
					dirs[d].dirty = false // a read-write open truncates the WAL it replays
				}
			case "other":
				res = "ROtherFail"
				if !ro { // createDirs may have run
					for _, i := range []int{d, v} {
						if _, err := os.Stat(dirs[i].path); err == nil {
							dirs[i].exists = true
						}
					}
				}
			default:
				if !ro {
					for _, i := range []int{d, v} {
						if _, err := os.Stat(dirs[i].path); err == nil {
							dirs[i].exists = true
						}
					}
				}
			}
			terms = append(terms, fmt.Sprintf("(Open (mkO %d %s %d %d %s %s %s), %s, %s)", p.num, Bool(ro), d, v, Bool(same), Bool(bypass), env, res, readPids()))
			desc = append(desc, fmt.Sprintf("open p%d ro=%v d%d v%d(%s) bypass=%v env=%s -> %s %s", p.num, ro, d, v, filepath.Base(vpath), bypass, env, resp.Res, resp.Msg))
		case x < 90: // Close
			i := c.Rng.Intn(len(live))
			h := live[i]
			var cerr string
			if h.slot == 0 {
				if err := h.db.Close(); err != nil {
					cerr = err.Error()
				}
			} else {
				resp, err := r.slots[h.slot].call(c35Req{Op: "close", ID: h.id})
				if err != nil {
					return fmt.Errorf("C35 helper call: %v", err)
				}
				if resp.Res != "ok" {
					cerr = resp.Msg
				}
			}
			live = append(live[:i], live[i+1:]...)
			c.Oracle(cerr == "", "C35-close-error", "Close returned an error: "+cerr, J{"case": r.nCase, "desc": desc})
			terms = append(terms, fmt.Sprintf("(Close %d, RClosed, %s)", h.id, readPids()))
			desc = append(desc, fmt.Sprintf("close h%d", h.id))
		default: // Kill a helper process that holds something
			var cand []int
			for s := 1; s < 3; s++ {
				if r.slots[s] != nil {
					cand = append(cand, s)
				}
			}
			if len(cand) == 0 {
				li--
				if c.Rng.Intn(4) == 0 {
					li++
				}
				continue
			}
			s := cand[c.Rng.Intn(len(cand))]
			pn := r.slots[s].num
			r.kill(s)
			var keep []*c35Handle
			for _, h := range live {
				if h.slot == s {
					if !h.ro {
						dirs[h.dir].dirty = true
					}
					continue
				}
				keep = append(keep, h)
			}
			live = keep
			terms = append(terms, fmt.Sprintf("(Kill %d, RKilled, %s)", pn, readPids()))
			desc = append(desc, fmt.Sprintf("kill p%d", pn))
		}
	}
	c.Case("LockSeq", "(Run "+ListOf(terms)+")", desc)
	return nil
}

func runC35(c *Ctx) error {
	c.Setup("Lock CorrC35", "run_case")
	base := os.Getenv("VERIF_SCRATCH_DIR")
	if base == "" {
		var err error
		base, err = os.MkdirTemp("", "verif_c35_")
		if err != nil {
			return err
		}
		defer os.RemoveAll(base)
	}
	r := &c35Run{c: c, pidProc: map[int]int{}, base: base}
	defer r.shutdown()
	for c.nCases < c.N {
		if err := r.oneCase(); err != nil {
			return err
		}
	}
	return nil
}
