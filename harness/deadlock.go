package main

// C38 — public calls and Close always return (no deadlock).
//
// Time-bounded concurrent stress scenarios on the real DB, each run in a CHILD PROCESS (a hang,
// a Go panic or a y.AssertTrue exit cannot take the harness down). In the child every public
// call runs under a per-call deadline (generous: 60 s for calls that normally take ms; 10 s once
// Close has returned, when no goroutine that could serve the call exists any more); on expiry all
// goroutines are dumped (runtime.Stack(all)) and the scenario is reported as
// `c38-call-did-not-return:<api>` — never on timing alone without the dump. The parent classifies
// hangs / panics by the ROOT CAUSE visible in the dump (which frame the stuck goroutine sits in and
// which service goroutine is missing), emits one correspondence case per scenario run (the model
// of coq/B/Blocking.v must allow the observed outcome: a schedule built from the observation is
// executed by the model and its final observation compared) and one case per snapshot digest
// (the proved invariant's numeric bounds evaluated on what the real counters showed).
//
// l0-full runs (scL0Full): the class "a public call made while level 0 is at its stall limit".
// Level 0 is filled to NumLevelZeroTablesStall by open/commit/close cycles; on the freshly opened
// DB (compactors still in their random start delay) a non-empty memtable is left and DropPrefix /
// DropAll / Flatten / Close / a commit burst / Backup+Stream is called under the watchdog. A call
// that does not return is `c38-<api>-does-not-return-with-full-l0` with the dump (root cause named:
// who sits in addLevel0Table's stall loop, how many runCompactor goroutines exist). For calls that
// return, the order of the hook events around addLevel0Table and of the level-0 compactions is
// replayed in the model (c38EmitL0Full).

import (
	"context"
	"encoding/json"
	"errors"
	"fmt"
	"io"
	"math/rand"
	"os"
	"os/exec"
	"path/filepath"
	"regexp"
	"runtime"
	"sort"
	"strconv"
	"strings"
	"sync"
	"sync/atomic"
	"syscall"
	"time"

	badger "github.com/dgraph-io/badger/v4"
	"github.com/dgraph-io/badger/v4/pb"
	"github.com/dgraph-io/ristretto/v2/z"
)

func init() { register("C38", runC38) }

// ---------------------------------------------------------------------------------------------
// child side
// ---------------------------------------------------------------------------------------------

type c38Spec struct {
	Scenario   string         `json:"scenario"`
	Seed       int64          `json:"seed"`
	Dir        string         `json:"dir"`
	DurMs      int            `json:"dur_ms"`
	Trials     int            `json:"trials"`
	DeadlineMs int            `json:"deadline_ms"`      // per public call
	PostCloseM int            `json:"post_close_ms"`    // per call once Close has returned
	P          map[string]int `json:"p"`                // scenario parameters
	Out        string         `json:"out"`              // result directory
}

type c38Hung struct {
	API       string `json:"api"`
	Gid       uint64 `json:"gid"`
	ElapsedMs int64  `json:"elapsed_ms"`
	AfterClos bool   `json:"after_close_returned"`
	PreClose  bool   `json:"started_before_close_returned"` // the call began while Close was still running (or earlier)
	Stack     string `json:"stack"`
}

type c38Snap struct {
	N            int `json:"n"`
	MaxWriteCh   int `json:"max_writech"`
	WriteChCap   int `json:"writech_cap"`
	MaxFlushCh   int `json:"max_flushch"`
	FlushChCap   int `json:"flushch_cap"`
	MaxImm       int `json:"max_imm"`
	MaxL0        int `json:"max_l0"`
	L0Compact    int `json:"l0_compact"`
	L0Stall      int `json:"l0_stall"`
	StallSeen    int `json:"stall_seen"`     // snapshots with L0 >= stall limit
	FlushFull    int `json:"flushch_full"`   // snapshots with flushChan full
	BothSeen     int `json:"stall_and_full"` // both at once: writes stalled on the whole chain
	Blocked      int `json:"blockwrites_seen"`
	MaxPubCh     int `json:"max_pubch"`
	NumCompactor int `json:"num_compactors"`
}

type c38Result struct {
	Scenario      string                    `json:"scenario"`
	Seed          int64                     `json:"seed"`
	Completed     bool                      `json:"completed"`
	Calls         map[string]map[string]int `json:"calls"` // api -> error class -> count
	Hung          []c38Hung                 `json:"hung"`
	DumpFile      string                    `json:"dump_file"`
	Snap          c38Snap                   `json:"snap"`
	Notes         []string                  `json:"notes"`
	Trials        int                       `json:"trials"`
	CloseStarted  int                       `json:"close_started"`
	CloseReturned int                       `json:"close_returned"`
	Orphans       int                       `json:"orphans_in_writech_after_close"`
	Hooks         bool                      `json:"hooks"`
	L0Full        []*c38L0Trial             `json:"l0full,omitempty"`
}

// c38Ev is one hook event seen during an l0-full trial (existing hook points only).
type c38Ev struct {
	K   string `json:"k"`   // flush.table | flush.manifest (after addLevel0Table returned) | l0c.def | l0c.done
	Own bool   `json:"own"` // fired on the goroutine of the public call under test
	D   int    `json:"d"`   // l0c.def: tables picked from level 0; l0c.done: net number of tables level 0 lost
	L0  int    `json:"l0"`  // racy len(level 0) at the hook
	Ms  int64  `json:"ms"`
}

// c38L0Trial: one public call made while level 0 holds NumLevelZeroTablesStall tables.
type c38L0Trial struct {
	API      string  `json:"api"`
	Writers  bool    `json:"writers"`  // committers run concurrently with the call
	Stall    int     `json:"stall"`
	Attempts int     `json:"attempts"` // open/write/close cycles needed
	Reached  bool    `json:"reached"`  // level 0 was at the stall limit right before the call
	L0Before int     `json:"l0_before"`
	Mark     int     `json:"mark"` // Events[Mark:] happened after that check
	Events   []c38Ev `json:"events"`
	Started  bool    `json:"started"`
	Returned bool    `json:"returned"`
	Err      string  `json:"err"`
	Ms       int64   `json:"ms"`
	PostOK   bool    `json:"post_ok"` // a commit after the call returned nil
}

type c38Active struct {
	api   string
	gid   uint64
	start time.Time
}

type c38Env struct {
	spec   c38Spec
	rng    *rand.Rand
	mu     sync.Mutex
	res    c38Result
	active map[uint64]*c38Active
	nextID uint64
	closed atomic.Int64 // unix nanos of the moment the LAST Close returned (0 = none / DB reopened)
	db     atomic.Pointer[badger.DB]
}

var c38GidRe = regexp.MustCompile(`^goroutine (\d+) `)

func c38Gid() uint64 {
	var buf [64]byte
	n := runtime.Stack(buf[:], false)
	m := c38GidRe.FindSubmatch(buf[:n])
	if m == nil {
		return 0
	}
	g, _ := strconv.ParseUint(string(m[1]), 10, 64)
	return g
}

func c38ErrClass(err error) string {
	switch {
	case err == nil:
		return "ok"
	case errors.Is(err, badger.ErrBlockedWrites):
		return "ErrBlockedWrites"
	case errors.Is(err, badger.ErrDBClosed):
		return "ErrDBClosed"
	case errors.Is(err, badger.ErrConflict):
		return "ErrConflict"
	case errors.Is(err, badger.ErrRejected):
		return "ErrRejected"
	case errors.Is(err, badger.ErrNoRewrite):
		return "ErrNoRewrite"
	case errors.Is(err, badger.ErrTxnTooBig):
		return "ErrTxnTooBig"
	case errors.Is(err, context.Canceled), errors.Is(err, context.DeadlineExceeded):
		return "ctx-done"
	case errors.Is(err, badger.ErrKeyNotFound):
		return "ok" // a read that found nothing returned
	}
	s := err.Error()
	if strings.Contains(s, "Writes are blocked") {
		return "ErrBlockedWrites"
	}
	if len(s) > 60 {
		s = s[:60]
	}
	return "other:" + s
}

// call runs one public call under the watchdog.
func (e *c38Env) call(api string, f func() error) error {
	a := &c38Active{api: api, gid: c38Gid(), start: time.Now()}
	e.mu.Lock()
	e.nextID++
	id := e.nextID
	e.active[id] = a
	e.mu.Unlock()
	err := f()
	cl := c38ErrClass(err)
	e.mu.Lock()
	delete(e.active, id)
	m := e.res.Calls[api]
	if m == nil {
		m = map[string]int{}
		e.res.Calls[api] = m
	}
	m[cl]++
	e.mu.Unlock()
	return err
}

func (e *c38Env) note(format string, a ...interface{}) {
	e.mu.Lock()
	if len(e.res.Notes) < 40 {
		e.res.Notes = append(e.res.Notes, fmt.Sprintf(format, a...))
	}
	e.mu.Unlock()
}

func (e *c38Env) writeResult() {
	e.mu.Lock()
	js, _ := json.MarshalIndent(&e.res, "", " ")
	e.mu.Unlock()
	tmp := filepath.Join(e.spec.Out, "result.json.tmp")
	os.WriteFile(tmp, js, 0o644)
	os.Rename(tmp, filepath.Join(e.spec.Out, "result.json"))
}

func c38GoroutineBlock(dump string, gid uint64) string {
	pre := fmt.Sprintf("goroutine %d [", gid)
	for _, g := range strings.Split(dump, "\n\n") {
		if strings.HasPrefix(g, pre) {
			return g
		}
	}
	return ""
}

// watchdog: per-call deadline; on expiry dump all goroutines, record, exit(3).
func (e *c38Env) watchdog() {
	dl := time.Duration(e.spec.DeadlineMs) * time.Millisecond
	pc := time.Duration(e.spec.PostCloseM) * time.Millisecond
	tick := 0
	for {
		time.Sleep(50 * time.Millisecond)
		tick++
		now := time.Now()
		var expired []*c38Active
		closedAt := e.closed.Load()
		e.mu.Lock()
		for _, a := range e.active {
			if now.Sub(a.start) > dl {
				expired = append(expired, a)
			} else if closedAt != 0 && now.Sub(time.Unix(0, closedAt)) > pc && now.Sub(a.start) > pc {
				expired = append(expired, a)
			}
		}
		e.mu.Unlock()
		if len(expired) > 0 {
			buf := make([]byte, 16<<20)
			n := runtime.Stack(buf, true)
			dump := string(buf[:n])
			df := filepath.Join(e.spec.Out, "goroutines.txt")
			os.WriteFile(df, buf[:n], 0o644)
			if db := e.db.Load(); db != nil {
				s := db.VerifBlockingSnapshotNoLock()
				e.mu.Lock()
				e.res.Orphans = s.WriteCh
				e.mu.Unlock()
			}
			e.mu.Lock()
			e.res.DumpFile = df
			sort.Slice(expired, func(i, j int) bool { return expired[i].start.Before(expired[j].start) })
			for _, a := range expired {
				e.res.Hung = append(e.res.Hung, c38Hung{API: a.api, Gid: a.gid, ElapsedMs: now.Sub(a.start).Milliseconds(),
					AfterClos: closedAt != 0, PreClose: closedAt == 0 || a.start.UnixNano() < closedAt, Stack: c38GoroutineBlock(dump, a.gid)})
			}
			e.mu.Unlock()
			e.writeResult()
			os.Exit(3)
		}
		if tick%10 == 0 {
			e.writeResult()
		}
	}
}

// sampler: racy snapshots of the blocking structure while the workload runs.
func (e *c38Env) sampler(stop chan struct{}) {
	for {
		select {
		case <-stop:
			return
		default:
		}
		if db := e.db.Load(); db != nil && e.closed.Load() == 0 {
			s := db.VerifBlockingSnapshotNoLock()
			e.mu.Lock()
			p := &e.res.Snap
			p.N++
			p.WriteChCap, p.FlushChCap, p.L0Compact, p.L0Stall, p.NumCompactor = s.WriteChCap, s.FlushChCap, s.L0Compact, s.L0Stall, s.NumCompactor
			if s.WriteCh > p.MaxWriteCh {
				p.MaxWriteCh = s.WriteCh
			}
			if s.FlushCh > p.MaxFlushCh {
				p.MaxFlushCh = s.FlushCh
			}
			if s.Imm > p.MaxImm {
				p.MaxImm = s.Imm
			}
			if s.L0 > p.MaxL0 {
				p.MaxL0 = s.L0
			}
			if s.PubCh > p.MaxPubCh {
				p.MaxPubCh = s.PubCh
			}
			st := s.L0 >= s.L0Stall
			fu := s.FlushChCap > 0 && s.FlushCh >= s.FlushChCap
			if st {
				p.StallSeen++
			}
			if fu {
				p.FlushFull++
			}
			if st && fu {
				p.BothSeen++
			}
			if s.BlockWrites {
				p.Blocked++
			}
			e.mu.Unlock()
		}
		time.Sleep(500 * time.Microsecond)
	}
}

func (e *c38Env) pi(k string, def int) int {
	if v, ok := e.spec.P[k]; ok {
		return v
	}
	return def
}

func (e *c38Env) opts(dir string) badger.Options {
	return badger.DefaultOptions(dir).WithLogger(nil).
		WithMemTableSize(int64(e.pi("mem", 128<<10))).WithNumMemtables(e.pi("nmem", 2)).
		WithNumLevelZeroTables(e.pi("l0", 1)).WithNumLevelZeroTablesStall(e.pi("stall", 2)).
		WithNumCompactors(e.pi("compactors", 2)).WithValueLogFileSize(1 << 20).
		WithValueThreshold(int64(e.pi("vt", 256))).WithBaseTableSize(int64(e.pi("tbl", 64<<10))).
		WithBaseLevelSize(int64(e.pi("base", 256<<10))).WithLevelSizeMultiplier(4).WithBlockSize(1024).
		WithMetricsEnabled(false).WithCompactL0OnClose(e.pi("l0onclose", 0) == 1).
		WithBlockCacheSize(1 << 20).WithIndexCacheSize(1 << 20).WithDetectConflicts(e.pi("detect", 1) == 1).
		WithSyncWrites(e.pi("sync", 0) == 1)
}

func (e *c38Env) open(sub string) (*badger.DB, string) {
	dir := filepath.Join(e.spec.Dir, sub)
	os.RemoveAll(dir)
	os.MkdirAll(dir, 0o755)
	db, err := badger.Open(e.opts(dir))
	if err != nil {
		e.note("open: %v", err)
		e.writeResult()
		os.Exit(4)
	}
	e.closed.Store(0)
	e.db.Store(db)
	return db, dir
}

func (e *c38Env) closeDB(db *badger.DB) error {
	e.mu.Lock()
	e.res.CloseStarted++
	e.mu.Unlock()
	err := e.call("Close", func() error { return db.Close() })
	e.mu.Lock()
	e.res.CloseReturned++
	e.mu.Unlock()
	e.closed.Store(time.Now().UnixNano())
	return err
}

func c38Key(w, i, j int) []byte { return []byte(fmt.Sprintf("k%02d/%07d/%03d", w, i, j)) }

// writer loop: db.Update with nset keys of vlen bytes until stop is closed or the DB reports
// blocked / closed. Returns when told to or on a terminal error class.
func (e *c38Env) writer(db *badger.DB, w int, stop chan struct{}, nset, vlen int, untilErr bool) {
	val := make([]byte, vlen)
	for i := range val {
		val[i] = byte('a' + (i+w)%26)
	}
	for i := 0; ; i++ {
		select {
		case <-stop:
			return
		default:
		}
		err := e.call("Update", func() error {
			return db.Update(func(txn *badger.Txn) error {
				if e.pi("conflict", 0) == 1 && w%4 == 0 {
					// read-modify-write of a shared key: concurrent writers get ErrConflict
					if _, err := txn.Get([]byte("shared")); err != nil && err != badger.ErrKeyNotFound {
						return err
					}
					if err := txn.Set([]byte("shared"), val[:8]); err != nil {
						return err
					}
				}
				for j := 0; j < nset; j++ {
					if err := txn.Set(c38Key(w, i%500, j), val); err != nil {
						return err
					}
				}
				return nil
			})
		})
		if err != nil {
			cl := c38ErrClass(err)
			if cl == "ErrDBClosed" || (untilErr && cl == "ErrBlockedWrites") {
				return
			}
			if cl == "ErrBlockedWrites" {
				time.Sleep(200 * time.Microsecond)
			}
		}
	}
}

func (e *c38Env) reader(db *badger.DB, w int, stop chan struct{}) {
	for i := 0; ; i++ {
		select {
		case <-stop:
			return
		default:
		}
		if i%4 == 3 {
			e.call("View+Iterate", func() error {
				return db.View(func(txn *badger.Txn) error {
					it := txn.NewIterator(badger.DefaultIteratorOptions)
					defer it.Close()
					n := 0
					for it.Seek(c38Key(w%4, 0, 0)); it.Valid() && n < 50; it.Next() {
						if _, err := it.Item().ValueCopy(nil); err != nil {
							return err
						}
						n++
					}
					return nil
				})
			})
		} else {
			e.call("View+Get", func() error {
				return db.View(func(txn *badger.Txn) error {
					it, err := txn.Get(c38Key(w%4, i%500, 0))
					if err != nil {
						return err
					}
					_, err = it.ValueCopy(nil)
					return err
				})
			})
		}
		time.Sleep(100 * time.Microsecond)
	}
}

func c38Wait(wg *sync.WaitGroup) { wg.Wait() }

// ---- scenarios ----

// stall: many committers against tiny memtables / L0 limits (writes stall on the whole chain),
// readers and iterators alongside; then writers are stopped and the DB closed.
func (e *c38Env) scStall() {
	db, _ := e.open("db")
	stop := make(chan struct{})
	var wg sync.WaitGroup
	for w := 0; w < e.pi("writers", 8); w++ {
		wg.Add(1)
		go func(w int) { defer wg.Done(); e.writer(db, w, stop, e.pi("nset", 8), e.pi("vlen", 600), false) }(w)
	}
	for r := 0; r < e.pi("readers", 3); r++ {
		wg.Add(1)
		go func(r int) { defer wg.Done(); e.reader(db, r, stop) }(r)
	}
	time.Sleep(time.Duration(e.spec.DurMs) * time.Millisecond)
	close(stop)
	c38Wait(&wg)
	e.closeDB(db)
}

// closeInflight: Close is called while committers are still running (several trials, each on a
// fresh DB). Every Update must return (ok, ErrBlockedWrites or ErrDBClosed), Close must return.
func (e *c38Env) scCloseInflight() {
	for t := 0; t < e.spec.Trials; t++ {
		db, dir := e.open(fmt.Sprintf("db%d", t))
		stop := make(chan struct{})
		var wg sync.WaitGroup
		for w := 0; w < e.pi("writers", 8); w++ {
			wg.Add(1)
			go func(w int) { defer wg.Done(); e.writer(db, w, stop, e.pi("nset", 60), e.pi("vlen", 40), true) }(w)
		}
		time.Sleep(time.Duration(e.rng.Intn(e.spec.DurMs)+3) * time.Millisecond)
		e.closeDB(db)
		close(stop)
		c38Wait(&wg)
		e.mu.Lock()
		e.res.Trials++
		e.mu.Unlock()
		os.RemoveAll(dir)
	}
}

// drop: committers + DropPrefix / DropAll callers (concurrent drops must fail fast with
// ErrBlockedWrites), then stop and Close.
func (e *c38Env) scDrop() {
	db, _ := e.open("db")
	stop := make(chan struct{})
	var wg sync.WaitGroup
	for w := 0; w < e.pi("writers", 6); w++ {
		wg.Add(1)
		go func(w int) { defer wg.Done(); e.writer(db, w, stop, e.pi("nset", 8), e.pi("vlen", 300), false) }(w)
	}
	for d := 0; d < 2; d++ {
		wg.Add(1)
		go func(d int) {
			defer wg.Done()
			for i := 0; ; i++ {
				select {
				case <-stop:
					return
				default:
				}
				if (i+d)%3 == 2 && e.pi("dropall", 1) == 1 {
					e.call("DropAll", func() error { return db.DropAll() })
				} else {
					e.call("DropPrefix", func() error { return db.DropPrefix([]byte(fmt.Sprintf("k%02d/", (i+d)%6))) })
				}
				time.Sleep(time.Duration(3+d*7) * time.Millisecond)
			}
		}(d)
	}
	time.Sleep(time.Duration(e.spec.DurMs) * time.Millisecond)
	close(stop)
	c38Wait(&wg)
	e.closeDB(db)
}

// gcFlatten: large values (value log), RunValueLogGC and Flatten alongside committers and readers.
func (e *c38Env) scGcFlatten() {
	db, _ := e.open("db")
	stop := make(chan struct{})
	var wg sync.WaitGroup
	for w := 0; w < e.pi("writers", 4); w++ {
		wg.Add(1)
		go func(w int) { defer wg.Done(); e.writer(db, w, stop, 4, e.pi("vlen", 2000), false) }(w)
	}
	for r := 0; r < 2; r++ {
		wg.Add(1)
		go func(r int) { defer wg.Done(); e.reader(db, r, stop) }(r)
	}
	wg.Add(2)
	go func() {
		defer wg.Done()
		for {
			select {
			case <-stop:
				return
			default:
			}
			e.call("RunValueLogGC", func() error { return db.RunValueLogGC(0.01) })
			time.Sleep(2 * time.Millisecond)
		}
	}()
	go func() {
		defer wg.Done()
		for {
			select {
			case <-stop:
				return
			default:
			}
			e.call("Flatten", func() error { return db.Flatten(2) })
			time.Sleep(20 * time.Millisecond)
		}
	}()
	time.Sleep(time.Duration(e.spec.DurMs) * time.Millisecond)
	close(stop)
	c38Wait(&wg)
	// GC racing Close: Close must stop a running GC and return.
	var wg2 sync.WaitGroup
	wg2.Add(1)
	go func() {
		defer wg2.Done()
		e.call("RunValueLogGC", func() error { return db.RunValueLogGC(0.01) })
	}()
	e.closeDB(db)
	wg2.Wait()
}

// batchSubscribe: WriteBatch.Flush callers, subscribers that are cancelled while updates flow
// (one of them with a slow callback), committers; then Close with subscribers still attached.
func (e *c38Env) scBatchSubscribe() {
	db, _ := e.open("db")
	stop := make(chan struct{})
	var wg sync.WaitGroup
	for w := 0; w < e.pi("writers", 4); w++ {
		wg.Add(1)
		go func(w int) { defer wg.Done(); e.writer(db, w, stop, 6, e.pi("vlen", 200), false) }(w)
	}
	for b := 0; b < 2; b++ {
		wg.Add(1)
		go func(b int) {
			defer wg.Done()
			for i := 0; ; i++ {
				select {
				case <-stop:
					return
				default:
				}
				e.call("WriteBatch.Flush", func() error {
					wb := db.NewWriteBatch()
					defer wb.Cancel()
					for j := 0; j < 300; j++ {
						if err := wb.Set(c38Key(50+b, i%100, j), []byte("batch-value-batch-value")); err != nil {
							return err
						}
					}
					return wb.Flush()
				})
			}
		}(b)
	}
	for s := 0; s < 3; s++ {
		wg.Add(1)
		go func(s int) {
			defer wg.Done()
			for i := 0; ; i++ {
				select {
				case <-stop:
					return
				default:
				}
				ctx, cancel := context.WithCancel(context.Background())
				go func() {
					time.Sleep(time.Duration(2+e.pi("subms", 15)*(s+1)) * time.Millisecond)
					cancel()
				}()
				e.call("Subscribe", func() error {
					return db.Subscribe(ctx, func(kv *badger.KVList) error {
						if s == 0 {
							time.Sleep(time.Millisecond) // slow consumer: back pressure on the publisher
						}
						return nil
					}, []pb.Match{{Prefix: []byte(fmt.Sprintf("k%02d", s))}})
				})
				cancel()
			}
		}(s)
	}
	time.Sleep(time.Duration(e.spec.DurMs) * time.Millisecond)
	close(stop)
	c38Wait(&wg)
	// Close with a subscriber still attached: Subscribe must return (nil) when the DB closes.
	var wg2 sync.WaitGroup
	wg2.Add(1)
	ready := make(chan struct{})
	go func() {
		defer wg2.Done()
		e.call("Subscribe", func() error {
			close(ready)
			return db.Subscribe(context.Background(), func(kv *badger.KVList) error { return nil },
				[]pb.Match{{Prefix: []byte("k")}})
		})
	}()
	<-ready
	time.Sleep(5 * time.Millisecond)
	e.closeDB(db)
	wg2.Wait()
}

// streamWriter: StreamWriter on a second DB (Prepare / Write / Flush) while the first DB is under
// write load; both are closed afterwards.
func (e *c38Env) scStreamWriter() {
	db, _ := e.open("db")
	dir2 := filepath.Join(e.spec.Dir, "db2")
	os.MkdirAll(dir2, 0o755)
	db2, err := badger.OpenManaged(e.opts(dir2))
	if err != nil {
		e.note("open2: %v", err)
		return
	}
	stop := make(chan struct{})
	var wg sync.WaitGroup
	for w := 0; w < 3; w++ {
		wg.Add(1)
		go func(w int) { defer wg.Done(); e.writer(db, w, stop, 6, 300, false) }(w)
	}
	e.call("StreamWriter.Prepare", func() error {
		sw := db2.NewStreamWriter()
		if err := sw.Prepare(); err != nil {
			return err
		}
		for b := 0; b < e.pi("swbatches", 30); b++ {
			buf := c38KVBuf(b, 200)
			err := e.call("StreamWriter.Write", func() error { return sw.Write(buf) })
			buf.Release()
			if err != nil {
				return err
			}
		}
		return e.call("StreamWriter.Flush", func() error { return sw.Flush() })
	})
	e.call("View+Get", func() error {
		return db2.View(func(txn *badger.Txn) error { _, err := txn.Get([]byte("s000/0000")); return err })
	})
	close(stop)
	c38Wait(&wg)
	e.call("Close", func() error { return db2.Close() })
	e.closeDB(db)
}

// closeVsNewTxn: NewTransaction / Commit calls that START WHILE Close is running (after Close has
// set blockWrites/isClosed, so none of these commits can pass the blockWrites check: finding F14
// is out of reach here) and before Close returns. Close stops the oracle's watermark goroutines
// near its end; a NewTransaction that has to wait for txnMark must still return.
func (e *c38Env) scCloseVsNewTxn() {
	for t := 0; t < e.spec.Trials; t++ {
		db, dir := e.open(fmt.Sprintf("db%d", t))
		// some data so that Close has a memtable to flush
		for i := 0; i < 30; i++ {
			e.call("Update", func() error {
				return db.Update(func(txn *badger.Txn) error {
					for j := 0; j < 20; j++ {
						txn.Set(c38Key(i%4, i, j), make([]byte, 200))
					}
					return nil
				})
			})
		}
		var closeReturned atomic.Bool
		var wg sync.WaitGroup
		for w := 0; w < e.pi("writers", 6); w++ {
			wg.Add(1)
			go func(w int) {
				defer wg.Done()
				for !db.IsClosed() {
					runtime.Gosched()
				}
				for i := 0; !closeReturned.Load(); i++ {
					var txn *badger.Txn
					e.call("NewTransaction", func() error { txn = db.NewTransaction(true); return nil })
					txn.Set(c38Key(w, i, 0), []byte("v"))
					e.call("Commit", func() error { return txn.Commit() })
				}
			}(w)
		}
		time.Sleep(time.Duration(e.rng.Intn(3)+1) * time.Millisecond)
		e.closeDB(db)
		closeReturned.Store(true)
		c38Wait(&wg)
		e.mu.Lock()
		e.res.Trials++
		e.mu.Unlock()
		os.RemoveAll(dir)
	}
}

// closeVsDrop: Close called while a DropPrefix / DropAll is in progress.
func (e *c38Env) scCloseVsDrop() {
	for t := 0; t < e.spec.Trials; t++ {
		db, dir := e.open(fmt.Sprintf("db%d", t))
		for i := 0; i < 40; i++ {
			e.call("Update", func() error {
				return db.Update(func(txn *badger.Txn) error {
					for j := 0; j < 20; j++ {
						txn.Set(c38Key(i%4, i, j), make([]byte, 300))
					}
					return nil
				})
			})
		}
		var wg sync.WaitGroup
		wg.Add(1)
		started := make(chan struct{})
		go func() {
			defer wg.Done()
			close(started)
			if t%2 == 0 {
				e.call("DropPrefix", func() error { return db.DropPrefix([]byte("k00/")) })
			} else {
				e.call("DropAll", func() error { return db.DropAll() })
			}
		}()
		<-started
		time.Sleep(time.Duration(e.rng.Intn(3000)) * time.Microsecond)
		e.closeDB(db)
		c38Wait(&wg)
		e.mu.Lock()
		e.res.Trials++
		e.mu.Unlock()
		os.RemoveAll(dir)
	}
}

// f14Forced: deterministic schedule for finding F14 through the verif hook points
// "sendToWriteCh.beforeSend" (and, for the hang flavour, "close.beforeCloseWriteCh").
// P["flavour"]: 0 = hang (needs both points), 1 = panic (needs the first point only).
func (e *c38Env) scF14Forced() {
	db, _ := e.open("db")
	var mu sync.Mutex
	parkSend, parkClose := true, e.pi("flavour", 0) == 0
	atSend, atClose := make(chan struct{}), make(chan struct{})
	relSend, relClose := make(chan struct{}), make(chan struct{})
	seenSend, seenClose := false, false
	badger.VerifSetController(&badger.VerifController{Point: func(name string, args ...uint64) {
		switch name {
		case "sendToWriteCh.beforeSend":
			mu.Lock()
			p := parkSend
			parkSend = false
			seenSend = true
			mu.Unlock()
			if p {
				close(atSend)
				<-relSend
			}
		case "close.beforeCloseWriteCh":
			mu.Lock()
			p := parkClose
			parkClose = false
			seenClose = true
			mu.Unlock()
			if p {
				close(atClose)
				<-relClose
			}
		}
	}})
	defer badger.VerifSetController(nil)
	var wg sync.WaitGroup
	wg.Add(1)
	go func() {
		defer wg.Done()
		e.call("Update", func() error {
			return db.Update(func(txn *badger.Txn) error { return txn.Set([]byte("racer"), []byte("v")) })
		})
	}()
	select {
	case <-atSend:
	case <-time.After(5 * time.Second):
		e.note("hook-missing:sendToWriteCh.beforeSend")
		mu.Lock()
		parkSend = false
		mu.Unlock()
		c38Wait(&wg)
		e.closeDB(db)
		return
	}
	e.mu.Lock()
	e.res.Hooks = true
	e.mu.Unlock()
	// the commit has passed its blockWrites check and is parked before `db.writeCh <- req`
	closeDone := make(chan struct{})
	go func() { e.closeDB(db); close(closeDone) }()
	if e.pi("flavour", 0) == 0 {
		select {
		case <-atClose: // writer goroutine has exited, writeCh not yet closed
			close(relSend) // request is buffered in writeCh: nobody will ever read it
			time.Sleep(50 * time.Millisecond)
			close(relClose)
		case <-closeDone:
			e.note("hook-missing:close.beforeCloseWriteCh")
			close(relSend) // falls through to the panic flavour
		case <-time.After(20 * time.Second):
			e.note("close-did-not-reach-point")
			close(relSend)
		}
	} else {
		<-closeDone
		close(relSend) // send on the closed channel
	}
	<-closeDone
	c38Wait(&wg)
	_ = seenSend
	_ = seenClose
}

// dropForced: deterministic schedule for the DropPrefix/commit deadlock through the hook point
// "sendToWriteCh.beforeSend": a commit is parked after its blockWrites check (it holds its commit
// timestamp); DropPrefix starts, blocks writes, stops the writer and reaches its View; the commit
// is released and sends to the writer-less channel.
func (e *c38Env) scDropForced() {
	db, _ := e.open("db")
	e.call("Update", func() error {
		return db.Update(func(txn *badger.Txn) error { return txn.Set([]byte("k00/seed"), []byte("v")) })
	})
	var mu sync.Mutex
	park := true
	atSend, relSend := make(chan struct{}), make(chan struct{})
	badger.VerifSetController(&badger.VerifController{Point: func(name string, args ...uint64) {
		if name != "sendToWriteCh.beforeSend" {
			return
		}
		mu.Lock()
		p := park
		park = false
		mu.Unlock()
		if p {
			close(atSend)
			<-relSend
		}
	}})
	defer badger.VerifSetController(nil)
	var wg sync.WaitGroup
	wg.Add(1)
	go func() {
		defer wg.Done()
		e.call("Update", func() error {
			return db.Update(func(txn *badger.Txn) error { return txn.Set([]byte("k01/racer"), []byte("v")) })
		})
	}()
	select {
	case <-atSend:
	case <-time.After(5 * time.Second):
		e.note("hook-missing:sendToWriteCh.beforeSend")
		mu.Lock()
		park = false
		mu.Unlock()
		c38Wait(&wg)
		e.closeDB(db)
		return
	}
	e.mu.Lock()
	e.res.Hooks = true
	e.mu.Unlock()
	wg.Add(1)
	go func() {
		defer wg.Done()
		e.call("DropPrefix", func() error { return db.DropPrefix([]byte("k00/")) })
	}()
	time.Sleep(time.Duration(e.pi("holdms", 300)) * time.Millisecond)
	close(relSend)
	c38Wait(&wg)
	e.closeDB(db)
}


// ---- l0-full: public calls made while level 0 is at its stall limit ----

var c38L0APIs = []string{"DropPrefix", "DropAll", "Flatten", "Close", "Update-burst", "Backup+Stream"}

func (e *c38Env) openKeep(dir string) *badger.DB {
	os.MkdirAll(dir, 0o755)
	var db *badger.DB
	err := e.call("Open", func() error {
		var err error
		db, err = badger.Open(e.opts(dir))
		return err
	})
	if err != nil {
		e.note("open: %v", err)
		e.writeResult()
		os.Exit(4)
	}
	e.closed.Store(0)
	e.db.Store(db)
	return db
}

func (e *c38Env) l0Len() int {
	if db := e.db.Load(); db != nil {
		return db.VerifBlockingSnapshotNoLock().L0
	}
	return -1
}

// l0Hooks records, through the EXISTING hook points, the order of: a memtable flush reaching
// addLevel0Table (persist.flush.table fires right before it, persist.flush.manifest right after
// it returned) and level-0 compactions (CompactDef / persist.compact.installed).
func (e *c38Env) l0Hooks(cur *atomic.Pointer[c38L0Trial], apiGid *atomic.Uint64) {
	type pend struct {
		l0        bool
		top, next int
		nw        int
	}
	var hm sync.Mutex
	pends := map[uint64]*pend{}
	t0 := time.Now()
	add := func(k string, own bool, d int) {
		tr := cur.Load()
		if tr == nil {
			return
		}
		l0 := e.l0Len()
		e.mu.Lock()
		if len(tr.Events) < 300 {
			tr.Events = append(tr.Events, c38Ev{K: k, Own: own, D: d, L0: l0, Ms: time.Since(t0).Milliseconds()})
		}
		e.mu.Unlock()
	}
	badger.VerifSetController(&badger.VerifController{
		Point: func(name string, args ...uint64) {
			switch name {
			case "persist.flush.table":
				add("flush.table", c38Gid() == apiGid.Load(), 0)
			case "persist.flush.manifest":
				add("flush.manifest", c38Gid() == apiGid.Load(), 0)
			case "persist.compact.installed":
				g := c38Gid()
				hm.Lock()
				p := pends[g]
				delete(pends, g)
				hm.Unlock()
				if p != nil && p.l0 {
					d := p.top
					if p.next == 0 {
						d -= p.nw // L0->L0: the new table(s) stay in level 0
					}
					add("l0c.done", g == apiGid.Load(), d)
				}
			}
		},
		CompactDef: func(info *badger.VerifCompactInfo) {
			g := c38Gid()
			hm.Lock()
			pends[g] = &pend{l0: info.ThisLevel == 0, top: len(info.Top), next: info.NextLevel}
			hm.Unlock()
			if info.ThisLevel == 0 {
				add("l0c.def", g == apiGid.Load(), len(info.Top))
			}
		},
		NewTables: func(info *badger.VerifCompactInfo) {
			g := c38Gid()
			hm.Lock()
			if p := pends[g]; p != nil {
				p.nw = len(info.New)
			}
			hm.Unlock()
		},
	})
}

// buildFullL0 leaves level 0 with NumLevelZeroTablesStall tables and a non-empty memtable on a
// freshly opened DB: every open / one small commit / close cycle adds one table (Close flushes
// the memtable; the compactors of a fresh DB start after a random delay of up to 1 s, so short
// sessions see no compaction; when one does run, the cycle simply goes on).
func (e *c38Env) buildFullL0(dir string, tr *c38L0Trial) *badger.DB {
	stall := e.pi("stall", 2)
	for i := 0; i < 80; i++ {
		db := e.openKeep(dir)
		e.mu.Lock()
		tr.Attempts = i + 1
		tr.Events = tr.Events[:0]
		e.mu.Unlock()
		full := e.l0Len() >= stall
		e.call("Update", func() error {
			return db.Update(func(txn *badger.Txn) error {
				if err := txn.Set([]byte(fmt.Sprintf("k00/fill-%04d", i)), []byte("drop-me")); err != nil {
					return err
				}
				return txn.Set([]byte(fmt.Sprintf("k01/keep-%04d", i)), []byte("keep-me"))
			})
		})
		if n := e.l0Len(); full && n >= stall {
			e.mu.Lock()
			tr.Reached, tr.L0Before, tr.Mark = true, n, len(tr.Events)
			e.mu.Unlock()
			return db
		}
		e.closeDB(db)
	}
	return nil
}

func (e *c38Env) scL0Full() {
	api := e.pi("api", 0) % len(c38L0APIs)
	var cur atomic.Pointer[c38L0Trial]
	var apiGid atomic.Uint64
	e.l0Hooks(&cur, &apiGid)
	defer badger.VerifSetController(nil)
	e.mu.Lock()
	e.res.Hooks = true
	e.mu.Unlock()
	for t := 0; t < e.spec.Trials; t++ {
		dir := filepath.Join(e.spec.Dir, fmt.Sprintf("db%d", t))
		os.RemoveAll(dir)
		tr := &c38L0Trial{API: c38L0APIs[api], Stall: e.pi("stall", 2)}
		tr.Writers = t%2 == 1 && api != 3
		e.mu.Lock()
		e.res.L0Full = append(e.res.L0Full, tr)
		e.mu.Unlock()
		apiGid.Store(0)
		cur.Store(tr)
		db := e.buildFullL0(dir, tr)
		if db == nil {
			e.note("l0-full: level 0 never reached the stall limit")
			cur.Store(nil)
			continue
		}
		stop := make(chan struct{})
		var wg sync.WaitGroup
		nw, nset, vlen := 0, 2, 100
		if tr.Writers {
			nw = 3
		}
		if api == 2 || api == 5 { // Flatten / Backup+Stream: the writers fill memtables, the flusher stalls
			nset, vlen = 8, 900
		}
		for w := 0; w < nw; w++ {
			wg.Add(1)
			go func(w int) { defer wg.Done(); e.writer(db, w, stop, nset, vlen, false) }(w)
		}
		done := make(chan error, 1)
		t0 := time.Now()
		e.mu.Lock()
		tr.Started = true
		e.mu.Unlock()
		go func() {
			apiGid.Store(c38Gid())
			var err error
			switch api {
			case 0:
				err = e.call("DropPrefix", func() error { return db.DropPrefix([]byte("k00/")) })
			case 1:
				err = e.call("DropAll", func() error { return db.DropAll() })
			case 2:
				err = e.call("Flatten", func() error { return db.Flatten(2) })
			case 3:
				err = e.closeDB(db)
			case 4:
				// a burst that fills about a dozen memtables: every flush has to wait for a compaction
				var bw sync.WaitGroup
				for w := 0; w < 4; w++ {
					bw.Add(1)
					go func(w int) {
						defer bw.Done()
						val := make([]byte, 900) // below the value threshold: the values fill the memtables
						for i := 0; i < e.pi("burst", 24); i++ {
							e.call("Update", func() error {
								return db.Update(func(txn *badger.Txn) error {
									for j := 0; j < 8; j++ { // 7 KB per transaction: below maxBatchSize (15% of the memtable)
										if err := txn.Set(c38Key(20+w, i, j), val); err != nil {
											return err
										}
									}
									return nil
								})
							})
						}
					}(w)
				}
				bw.Wait()
			case 5:
				err = e.call("Backup", func() error { _, err := db.Backup(io.Discard, 0); return err })
				if err == nil {
					err = e.call("Stream.Orchestrate", func() error {
						st := db.NewStream()
						st.NumGo = 2
						st.Send = func(buf *z.Buffer) error { return nil }
						return st.Orchestrate(context.Background())
					})
				}
			}
			done <- err
		}()
		err := <-done
		cur.Store(nil) // the events of the call under test only
		e.mu.Lock()
		tr.Returned, tr.Err, tr.Ms = true, c38ErrClass(err), time.Since(t0).Milliseconds()
		e.mu.Unlock()
		close(stop)
		c38Wait(&wg)
		if api != 3 {
			// the DB is usable afterwards: a commit and a read return, then Close
			perr := e.call("Update", func() error {
				return db.Update(func(txn *badger.Txn) error { return txn.Set([]byte("k01/after"), []byte("v")) })
			})
			e.call("View+Get", func() error {
				return db.View(func(txn *badger.Txn) error { _, err := txn.Get([]byte("k01/after")); return err })
			})
			e.mu.Lock()
			tr.PostOK = perr == nil
			e.mu.Unlock()
			e.closeDB(db)
		}
		cur.Store(nil)
		e.mu.Lock()
		e.res.Trials++
		e.mu.Unlock()
		e.writeResult()
		os.RemoveAll(dir)
	}
}

func (e *c38Env) run() {
	switch e.spec.Scenario {
	case "stall":
		e.scStall()
	case "close-inflight":
		e.scCloseInflight()
	case "drop":
		e.scDrop()
	case "gc-flatten":
		e.scGcFlatten()
	case "batch-subscribe":
		e.scBatchSubscribe()
	case "streamwriter":
		e.scStreamWriter()
	case "close-vs-newtxn":
		e.scCloseVsNewTxn()
	case "close-vs-drop":
		e.scCloseVsDrop()
	case "f14-forced":
		e.scF14Forced()
	case "drop-forced":
		e.scDropForced()
	case "l0-full":
		e.scL0Full()
	default:
		e.note("unknown scenario %q", e.spec.Scenario)
	}
}

func c38Child(c *Ctx) error {
	raw, err := os.ReadFile(c.Replay)
	if err != nil {
		return err
	}
	var spec c38Spec
	if err := json.Unmarshal(raw, &spec); err != nil {
		return err
	}
	e := &c38Env{spec: spec, rng: rand.New(rand.NewSource(spec.Seed)), active: map[uint64]*c38Active{}}
	e.res.Scenario, e.res.Seed = spec.Scenario, spec.Seed
	e.res.Calls = map[string]map[string]int{}
	os.MkdirAll(spec.Out, 0o755)
	os.MkdirAll(spec.Dir, 0o755)
	go e.watchdog()
	stopS := make(chan struct{})
	go e.sampler(stopS)
	e.run()
	close(stopS)
	e.mu.Lock()
	e.res.Completed = true
	e.mu.Unlock()
	e.writeResult()
	os.Exit(0)
	return nil
}

// ---------------------------------------------------------------------------------------------
// parent side
// ---------------------------------------------------------------------------------------------

type c38Run struct {
	Spec     c38Spec
	Res      c38Result
	HaveRes  bool
	ExitCode int
	Stderr   string
	Killed   bool
	WallMs   int64
}

func c38RunChild(c *Ctx, idx int, spec c38Spec, limit time.Duration) c38Run {
	base := filepath.Join(c.Out, fmt.Sprintf("run_%03d_%s", idx, spec.Scenario))
	os.MkdirAll(base, 0o755)
	scratch := os.Getenv("VERIF_SCRATCH_DIR")
	if scratch == "" {
		scratch = os.TempDir()
	}
	spec.Dir = filepath.Join(scratch, fmt.Sprintf("c38_%d_%03d", os.Getpid(), idx))
	spec.Out = base
	js, _ := json.MarshalIndent(&spec, "", " ")
	sf := filepath.Join(base, "spec.json")
	os.WriteFile(sf, js, 0o644)
	cmd := exec.Command(os.Args[0], "C38", "-mode", "child", "-replay", sf, "-out", filepath.Join(base, "childout"), "-n", "0")
	ef, _ := os.Create(filepath.Join(base, "stderr.txt"))
	cmd.Stderr = ef
	cmd.Stdout = ef
	t0 := time.Now()
	r := c38Run{Spec: spec}
	if err := cmd.Start(); err != nil {
		r.ExitCode = -1
		r.Stderr = err.Error()
		return r
	}
	done := make(chan error, 1)
	go func() { done <- cmd.Wait() }()
	select {
	case <-done:
	case <-time.After(limit):
		// never report on timing alone: SIGQUIT makes the Go runtime dump every goroutine
		r.Killed = true
		cmd.Process.Signal(syscall.SIGQUIT)
		select {
		case <-done:
		case <-time.After(20 * time.Second):
			cmd.Process.Kill()
			<-done
		}
	}
	ef.Close()
	r.WallMs = time.Since(t0).Milliseconds()
	if cmd.ProcessState != nil {
		r.ExitCode = cmd.ProcessState.ExitCode()
	}
	if b, err := os.ReadFile(filepath.Join(base, "stderr.txt")); err == nil {
		r.Stderr = string(b)
	}
	if b, err := os.ReadFile(filepath.Join(base, "result.json")); err == nil {
		if json.Unmarshal(b, &r.Res) == nil {
			r.HaveRes = true
		}
	}
	os.RemoveAll(spec.Dir)
	os.RemoveAll(filepath.Join(base, "childout"))
	return r
}

func c38Tail(s string, n int) string {
	if len(s) > n {
		return s[len(s)-n:]
	}
	return s
}
func c38Head(s string, n int) string {
	if len(s) > n {
		return s[:n]
	}
	return s
}

// c38Classify names the failing class of a run by its root cause (empty sig = the run is fine).
func c38Classify(r *c38Run) (sig, what string, evidence map[string]interface{}) {
	ev := map[string]interface{}{"scenario": r.Spec.Scenario, "spec": r.Spec, "exit": r.ExitCode, "wall_ms": r.WallMs}
	dump := ""
	if r.HaveRes && r.Res.DumpFile != "" {
		if b, err := os.ReadFile(r.Res.DumpFile); err == nil {
			dump = string(b)
		}
	}
	// --- the process died on a Go panic / fatal error / assertion ---
	if i := strings.Index(r.Stderr, "panic: "); i >= 0 || strings.Contains(r.Stderr, "fatal error: ") {
		if i < 0 {
			i = strings.Index(r.Stderr, "fatal error: ")
		}
		msg := c38Head(r.Stderr[i:], 6000)
		ev["stderr"] = msg
		first := strings.SplitN(msg, "\n", 2)[0]
		switch {
		case strings.Contains(first, "send on closed channel") && strings.Contains(msg, "sendToWriteCh"):
			return "F14-commit-racing-close-hangs-or-panics", "a commit that passed the blockWrites check sent on db.writeCh after Close closed it: " + first, ev
		case r.Spec.Scenario == "close-vs-drop":
			// the scenario consists of nothing but Close called during a DropPrefix / DropAll
			return "c38-close-racing-drop-panics", "Close concurrent with DropAll/DropPrefix crashed the process: " + first, ev
		}
		return "c38-process-panicked:" + r.Spec.Scenario, "the process panicked: " + first, ev
	}
	// --- a public call did not return within its deadline (dump attached) ---
	if r.HaveRes && len(r.Res.Hung) > 0 {
		var pre []c38Hung
		for _, h := range r.Res.Hung {
			if h.PreClose {
				pre = append(pre, h)
			}
		}
		if len(pre) == 0 {
			// every stuck call began after Close had returned: use after Close, not a race with it
			return "", "", ev
		}
		r.Res.Hung = pre
		h := r.Res.Hung[0]
		ev["hung"] = r.Res.Hung
		ev["calls"] = r.Res.Calls
		ev["dump_file"] = r.Res.DumpFile
		ev["dump_excerpt"] = c38Head(c38Interesting(dump), 12000)
		ev["orphans_in_writech"] = r.Res.Orphans
		writerAlive := strings.Contains(dump, "badger/v4.(*DB).doWrites")
		st := h.Stack
		// some goroutine of the dump (not only the calls already past their deadline) sits in all of subs
		anyStack := func(subs ...string) bool {
			blocks := strings.Split(dump, "\n\n")
			for _, x := range r.Res.Hung {
				blocks = append(blocks, x.Stack)
			}
			for _, x := range blocks {
				all := true
				for _, sub := range subs {
					if !strings.Contains(x, sub) {
						all = false
					}
				}
				if all {
					return true
				}
			}
			return false
		}
		// a goroutine is stuck INSIDE a watermark call (WaitForMark, or Begin/Done sending to the channel of
		// the stopped process goroutine); the ever-present (*WaterMark).process goroutines do not count
		wmStuck := func() bool {
			blocks := strings.Split(dump, "\n\n")
			for _, x := range r.Res.Hung {
				blocks = append(blocks, x.Stack)
			}
			for _, x := range blocks {
				if strings.Contains(strings.ReplaceAll(x, "(*WaterMark).process", ""), "(*WaterMark).") {
					return true
				}
			}
			return false
		}
		if r.Spec.Scenario == "l0-full" {
			// a public call made while level 0 held NumLevelZeroTablesStall tables did not return
			// (the Closes counted in CloseStarted belong to earlier sessions on the same directory)
			ev["l0full"] = r.Res.L0Full
			if anyStack("filterPrefixesToDrop", "(*WaterMark).WaitForMark") && anyStack("(*request).Wait") && !writerAlive {
				return "c38-dropprefix-racing-commit-deadlocks", "DropPrefix and a commit wait for each other (see F29b); level 0 was at its stall limit", ev
			}
			api := strings.ToLower(strings.NewReplacer(".", "-", "+", "-").Replace(h.API))
			ncomp := strings.Count(dump, "(*levelsController).runCompactor(")
			where := "no goroutine is in addLevel0Table"
			switch {
			case anyStack("(*levelsController).addLevel0Table", "(*DB).DropPrefix"):
				where = "DropPrefix -> handleMemTableFlush -> addLevel0Table sits in the level-0 stall loop (under db.lock, writes blocked)"
			case anyStack("(*levelsController).addLevel0Table", "(*DB).flushMemtable"):
				where = "flushMemtable -> handleMemTableFlush -> addLevel0Table sits in the level-0 stall loop"
			case anyStack("(*levelsController).addLevel0Table"):
				where = "a goroutine sits in addLevel0Table's level-0 stall loop"
			}
			return "c38-" + api + "-does-not-return-with-full-l0", fmt.Sprintf("%s, called with level 0 at its stall limit, did not return within %d ms: %s; %d runCompactor goroutine(s) exist (only a running compactor can make room in level 0); goroutine dump attached", h.API, h.ElapsedMs, where, ncomp), ev
		}
		switch {
		case r.Res.CloseStarted == 0 && anyStack("filterPrefixesToDrop", "(*WaterMark).WaitForMark") && anyStack("(*request).Wait") && !writerAlive:
			return "c38-dropprefix-racing-commit-deadlocks", "DropPrefix and a commit wait for each other: the commit passed the blockWrites check before DropPrefix blocked writes and its request sits in writeCh with no doWrites goroutine (restarted only when DropPrefix returns), while DropPrefix's filterPrefixesToDrop -> db.View -> readTs waits for that commit's timestamp", ev
		case r.Res.CloseStarted > 0 && wmStuck() && !strings.Contains(st, "(*request).Wait"):
			return "c38-newtransaction-racing-close-hangs", h.API + " never returned: Close's orc.Stop() ended the watermark goroutine; a call is stuck in WaitForMark / sending to the dead goroutine's channel (and, if it holds the oracle locks, every other commit behind it)", ev
		case strings.Contains(st, "(*request).Wait") && !writerAlive && r.Res.CloseStarted > 0:
			return "F14-commit-racing-close-hangs-or-panics", fmt.Sprintf("%s never returned: its request was sent on db.writeCh after doWrites' last look at the channel (no doWrites goroutine exists, %d request(s) left in writeCh), so req.Wait() blocks forever", h.API, r.Res.Orphans), ev
		case strings.Contains(st, "(*WaterMark).WaitForMark") && r.Res.CloseStarted > 0:
			return "c38-newtransaction-racing-close-hangs", h.API + " never returned: NewTransaction waits in txnMark.WaitForMark but Close has stopped the watermark goroutine (orc.Stop), so the waiter is never released", ev
		case strings.Contains(st, "(*WaterMark).") && r.Res.CloseStarted > 0:
			return "c38-newtransaction-racing-close-hangs", h.API + " never returned: blocked sending to the stopped watermark goroutine's channel after Close", ev
		}
		if r.Spec.Scenario == "close-vs-drop" {
			return "c38-close-racing-drop-panics", fmt.Sprintf("Close concurrent with DropAll/DropPrefix: %s did not return (%d ms); goroutine dump attached", h.API, h.ElapsedMs), ev
		}
		return "c38-call-did-not-return:" + h.API, fmt.Sprintf("%s did not return within its deadline (%d ms); goroutine dump attached", h.API, h.ElapsedMs), ev
	}
	if r.Killed {
		ev["stderr_tail"] = c38Tail(r.Stderr, 12000)
		return "c38-scenario-did-not-finish:" + r.Spec.Scenario, "the scenario process exceeded its overall limit although no single call exceeded its deadline (SIGQUIT goroutine dump attached)", ev
	}
	if r.HaveRes && len(r.Res.Hung) > 0 {
		return "", "", ev // only calls begun after Close returned were stuck
	}
	if !r.HaveRes || !r.Res.Completed || r.ExitCode != 0 {
		ev["stderr_tail"] = c38Tail(r.Stderr, 6000)
		if strings.Contains(r.Stderr, "Assert failed") || strings.Contains(r.Stderr, "log.Fatal") {
			return "c38-process-assert-exit:" + r.Spec.Scenario, "the process ended on a y.AssertTrue / log.Fatal exit", ev
		}
		return "c38-process-died:" + r.Spec.Scenario, fmt.Sprintf("the scenario process ended with exit code %d without completing", r.ExitCode), ev
	}
	return "", "", ev
}

// c38Interesting keeps the goroutines of the dump that sit in badger or harness frames.
func c38Interesting(dump string) string {
	var out []string
	for _, g := range strings.Split(dump, "\n\n") {
		if strings.Contains(g, "badger/v4") || strings.Contains(g, "main.(*c38Env)") {
			lines := strings.Split(g, "\n")
			if len(lines) > 14 {
				lines = lines[:14]
			}
			out = append(out, strings.Join(lines, "\n"))
		}
	}
	return strings.Join(out, "\n\n")
}

type c38Plan struct {
	name   string
	dur    int
	trials int
	p      map[string]int
}

func c38Plans(c *Ctx) []c38Plan {
	r := c.Rng
	pick := func(xs ...int) int { return xs[r.Intn(len(xs))] }
	mk := func(i int) []c38Plan {
		l0p := func(api int) c38Plan {
			return c38Plan{"l0-full", 0, 2, map[string]int{"api": api, "mem": 64 << 10, "nmem": 2, "vt": 1024, "l0": 1, "stall": pick(2, 2, 3), "compactors": pick(2, 2, 3), "burst": 24}}
		}
		return []c38Plan{
			l0p(0), l0p(1), l0p(2), l0p(3), l0p(4), l0p(5),
			{"drop-forced", 0, 1, map[string]int{"holdms": 300}},
			{"f14-forced", 0, 1, map[string]int{"flavour": 0}},
			{"f14-forced", 0, 1, map[string]int{"flavour": 1}},
			{"stall", 1500 + 500*(i%2), 0, map[string]int{"mem": 64 << 10, "nmem": pick(1, 2), "l0": 1, "stall": pick(2, 3), "writers": pick(8, 12), "vlen": pick(300, 700), "nset": 10, "vt": 1024, "conflict": 1}},
			{"close-inflight", 25, pick(6, 10), map[string]int{"mem": 256 << 10, "nmem": 2, "l0": 1, "stall": 2, "writers": pick(4, 8, 12), "nset": pick(20, 80)}},
			{"drop", 1500, 0, map[string]int{"mem": 128 << 10, "nmem": 2, "l0": pick(1, 2), "stall": 3, "dropall": i % 2}},
			{"gc-flatten", 1500, 0, map[string]int{"mem": 128 << 10, "nmem": 2, "l0": 2, "stall": 4, "vlen": pick(1500, 3000)}},
			{"batch-subscribe", 1500, 0, map[string]int{"mem": 256 << 10, "nmem": 2, "l0": 2, "stall": 3}},
			{"streamwriter", 0, 0, map[string]int{"mem": 256 << 10, "nmem": 2, "l0": 2, "stall": 3, "swbatches": pick(10, 40)}},
			{"close-vs-newtxn", 12, pick(2, 4), map[string]int{"mem": 256 << 10, "writers": pick(4, 8)}},
			{"close-vs-drop", 0, pick(3, 6), map[string]int{"mem": 128 << 10, "nmem": 2, "l0": 1, "stall": 2}},
		}
	}
	var out []c38Plan
	for i := 0; len(out) < c.N; i++ {
		out = append(out, mk(i)...)
	}
	return out[:c.N]
}

func runC38(c *Ctx) error {
	if c.Mode == "child" {
		return c38Child(c)
	}
	c.Setup("Blocking CorrC38", "run_case")
	runC38SubscribeBacklog(c)
	plans := c38Plans(c)
	runs := make([]c38Run, len(plans))
	par := 4
	if v := os.Getenv("VERIF_C38_PAR"); v != "" {
		if n, err := strconv.Atoi(v); err == nil && n > 0 {
			par = n
		}
	}
	sem := make(chan struct{}, par)
	var wg sync.WaitGroup
	for i, p := range plans {
		wg.Add(1)
		sem <- struct{}{}
		go func(i int, p c38Plan) {
			defer wg.Done()
			defer func() { <-sem }()
			spec := c38Spec{Scenario: p.name, Seed: c.Seed*1000 + int64(i), DurMs: p.dur, Trials: p.trials,
				DeadlineMs: 60000, PostCloseM: 10000, P: p.p}
			if p.name == "f14-forced" || p.name == "close-vs-newtxn" {
				spec.PostCloseM = 5000 // forced / near-certain schedules: Close has returned, no server goroutine is left
			}
			if p.name == "drop-forced" {
				spec.DeadlineMs = 8000 // forced schedule: the dump shows the wait cycle
			}
			if p.name == "l0-full" {
				// each call normally takes at most ~1-2 s (the compactors' start delay); a caller stuck in the
				// stall loop polls every 10 ms for ever: dump and end the process early
				spec.DeadlineMs = 25000
				if p.p["api"] <= 3 {
					spec.DeadlineMs = 15000 // DropPrefix, DropAll, Flatten, Close
				}
			}
			runs[i] = c38RunChild(c, i, spec, 240*time.Second)
		}(i, p)
	}
	wg.Wait()
	for i := range runs {
		c38Report(c, i, &runs[i])
	}
	return nil
}

func c38Report(c *Ctx, i int, r *c38Run) {
	sig, what, ev := c38Classify(r)
	c.Count("scenario:" + r.Spec.Scenario)
	// property oracle: every public call of the scenario returned (and the process survived)
	c.Oracle(sig == "", sig, what, ev)
	if !r.HaveRes {
		if sig != "" {
			c38EmitCases(c, r, sig)
		}
		return
	}
	// per-API oracle evaluations: each API exercised in this run returned every time
	apis := make([]string, 0, len(r.Res.Calls))
	for a := range r.Res.Calls {
		apis = append(apis, a)
	}
	sort.Strings(apis)
	for _, a := range apis {
		n := 0
		for cl, k := range r.Res.Calls[a] {
			n += k
			c.Count("ret:" + a + ":" + strings.SplitN(cl, ":", 2)[0])
		}
		hung := false
		for _, h := range r.Res.Hung {
			if h.API == a {
				hung = true
			}
		}
		if !hung {
			c.Oracle(true, "", "", nil)
		}
		_ = n
	}
	c38EmitCases(c, r, sig)
}

// c38KVBuf builds one StreamWriter batch: n increasing keys of stream id 1 (batch b sorts after
// batch b-1, as StreamWriter requires per stream).
func c38KVBuf(b, n int) *z.Buffer {
	buf := z.NewBuffer(64<<10, "c38")
	for j := 0; j < n; j++ {
		kv := &pb.KV{Key: []byte(fmt.Sprintf("s%03d/%04d", b, j)), Value: []byte("stream-value-stream-value"), Version: 1, StreamId: 1}
		badger.KVToBuffer(kv, buf)
	}
	return buf
}

// ---------------------------------------------------------------------------------------------
// correspondence with coq/B/Blocking.v (corr/CorrC38.v): programs built from the observation
// ---------------------------------------------------------------------------------------------

type c38Prog struct{ ins []string }

func (p *c38Prog) do(ls ...string) {
	for _, l := range ls {
		p.ins = append(p.ins, "Do "+l)
	}
}
func (p *c38Prog) not(ls ...string) {
	for _, l := range ls {
		p.ins = append(p.ins, "Not "+l)
	}
}
func c38Fills(f []bool) string {
	xs := make([]string, len(f))
	for i, b := range f {
		xs[i] = Bool(b)
	}
	return ListOf(xs)
}
func (p *c38Prog) run(k int, f []bool) { p.ins = append(p.ins, fmt.Sprintf("Run %d %s", k, c38Fills(f))) }
func (p *c38Prog) runQ(f []bool)       { p.ins = append(p.ins, "RunQ "+c38Fills(f)) }
func (p *c38Prog) term() string        { return ListOf(p.ins) }

// one commit pushed into writeCh by explicit labels (needs the lock free and writes unblocked)
func (p *c38Prog) send() { p.do("E_commit", "L_acq", "H_ts", "H_check", "H_send") }

// a commit parked holding its timestamp, before the blockWrites check
func (p *c38Prog) parkTs() { p.do("E_commit", "L_acq", "H_ts") }

type c38Exp struct {
	ok, blk, rd, drop, dblk int
	closed, crashed         bool
	hungC, hungR            int
}

func (e c38Exp) term() string {
	return fmt.Sprintf("(mkEobs %d %d %d %d %d %s %s %d %d)", e.ok, e.blk, e.rd, e.drop, e.dblk, Bool(e.closed), Bool(e.crashed), e.hungC, e.hungR)
}

func c38Min(a, b int) int {
	if a < b {
		return a
	}
	return b
}

// stallPrefix drives the model into the state the real counters showed: level 0 at the stall
// limit with the flusher holding a table (stall), optionally flushChan full and the next write
// finding no room. Returns the number of commits acknowledged so far by the prefix and the
// number of requests still in the pipeline.
func (p *c38Prog) stallPrefix(m, s int, full bool) (acked int, inflight int) {
	one := func() { p.send(); p.do("W_recv", "W_push") }
	// commits 1..s+1: each fills a memtable; from the 2nd on the previous one is rotated and flushed
	for i := 1; i <= s+1; i++ {
		one()
		if i > 1 {
			p.do("J_rotate")
		}
		p.do("(J_write true)", "J_done")
		acked++
		if i > 1 {
			p.do("F_take", "F_add")
		}
	}
	// level 0 = s: the next flush stalls
	one()
	p.do("J_rotate", "(J_write true)", "J_done", "F_take")
	p.not("F_add") // addLevel0Table waits: level 0 is at NumLevelZeroTablesStall
	acked++
	if !full {
		return acked, 0
	}
	for i := 0; i < m; i++ { // fill flushChan
		one()
		p.do("J_rotate", "(J_write true)", "J_done")
		acked++
	}
	one() // memtable full, flushChan full: ensureRoomForWrite has no room
	p.not("J_rotate", "(J_write false)", "J_done", "F_take")
	return acked, 1
}

func c38CfgArgs(sn c38Snap) (n, b, m, t, s, k int) {
	n, m, t, s, k = sn.WriteChCap, sn.FlushChCap, sn.L0Compact, sn.L0Stall, sn.NumCompactor
	if n == 0 {
		n = 1000
	}
	if m == 0 {
		m = 2
	}
	if s == 0 {
		t, s = 1, 2
	}
	if k == 0 {
		k = 2
	}
	return n, 3 * n, m, t, s, k
}

func c38Sum(m map[string]int, keys ...string) int {
	t := 0
	for _, k := range keys {
		t += m[k]
	}
	return t
}

// c38EmitCases writes the correspondence cases of one scenario run.
func c38EmitCases(c *Ctx, r *c38Run, sig string) {
	res := &r.Res
	n, b, m, t, s, k := c38CfgArgs(res.Snap)
	cfg := fmt.Sprintf("%d %d %d %d %d %d", n, b, m, t, s, k)
	emit := func(kind string, strict bool, p *c38Prog, e c38Exp, variant int) {
		term := fmt.Sprintf("Outcome %s %s %s %s", Bool(strict), cfg, p.term(), e.term())
		c.Case("outcome:"+kind, term, map[string]interface{}{"scenario": r.Spec.Scenario, "seed": r.Spec.Seed, "variant": variant,
			"real_stall_seen": res.Snap.StallSeen, "real_stall_and_flushchan_full": res.Snap.BothSeen,
			"calls": res.Calls, "prog_len": len(p.ins), "exp": fmt.Sprintf("%+v", e)})
	}
	if res.Snap.N > 0 {
		c.Case("snap", fmt.Sprintf("Snap %d %d %d %d %d %d", n, m, s, res.Snap.MaxWriteCh, res.Snap.MaxFlushCh, res.Snap.MaxL0),
			map[string]interface{}{"scenario": r.Spec.Scenario, "seed": r.Spec.Seed, "snap": res.Snap})
	}
	up := res.Calls["Update"]
	cm := res.Calls["Commit"]
	okC := c38Sum(up, "ok") + c38Sum(cm, "ok") + c38Sum(res.Calls["WriteBatch.Flush"], "ok")
	blkC := c38Sum(up, "ErrBlockedWrites") + c38Sum(cm, "ErrBlockedWrites")
	rdC := c38Sum(res.Calls["View+Get"], "ok") + c38Sum(res.Calls["View+Iterate"], "ok") + c38Sum(res.Calls["NewTransaction"], "ok")
	closed := res.CloseReturned > 0
	fillsets := [][]bool{{false}, {true}, {true, false}, {false, false, true}, {true, true, false}, {}}
	switch {
	case sig == "F14-commit-racing-close-hangs-or-panics" && strings.Contains(r.Stderr, "send on closed channel"):
		// the panic flavour of F14 (forced by the hook or hit by the stress): the witness schedule
		p := &c38Prog{}
		p.do("E_commit", "L_acq", "H_ts", "H_check", "E_close", "C_gc", "C_sig", "W_sig", "W_default", "W_final", "J_done", "C_waitw",
			"C_closech", "C_mt", "C_stopf", "F_exit", "C_waitf", "K0_exit", "KO_exit", "C_waitc", "C_orc", "H_send")
		emit("f14-panic", false, p, c38Exp{closed: true, crashed: true, hungC: 1}, 0)
		return
	case sig == "F14-commit-racing-close-hangs-or-panics":
		p := &c38Prog{}
		p.do("E_commit", "L_acq", "H_ts", "H_check", "E_close", "C_gc", "C_sig", "W_sig", "W_default", "W_final", "J_done", "C_waitw",
			"H_send", "C_closech", "C_mt", "C_stopf", "F_exit", "C_waitf", "K0_exit", "KO_exit", "C_waitc", "C_orc")
		p.not("W_recv", "W_drain", "D_drain", "J_done") // nobody receives from writeCh any more
		emit("f14-hang", false, p, c38Exp{closed: true, hungC: 1}, 0)
		return
	case sig == "c38-newtransaction-racing-close-hangs":
		p := &c38Prog{}
		p.do("E_commit", "L_acq", "H_ts", "E_read", "E_close", "C_gc", "C_sig", "W_sig", "W_default", "W_final", "J_done", "C_waitw",
			"C_closech", "C_mt", "C_stopf", "F_exit", "C_waitf", "K0_exit", "KO_exit", "C_waitc", "C_orc", "H_check")
		p.not("R_pass")
		emit("newtxn-hang", false, p, c38Exp{blk: 1, closed: true, hungR: 1}, 0)
		return
	case sig == "c38-dropprefix-racing-commit-deadlocks":
		p := &c38Prog{}
		p.do("E_commit", "L_acq", "H_ts", "H_check", "(E_drop true)", "D_sig", "W_sig", "W_default", "W_final", "J_done", "D_waitw",
			"D_default", "J_done", "H_send", "D_stopf", "F_exit", "D_waitf")
		p.not("D_view", "D_noview", "W_recv", "D_drain", "D_restart")
		emit("drop-hang", false, p, c38Exp{hungC: 1}, 0)
		return
	case sig != "":
		return // outside the model (e.g. Close racing DropAll): the oracle failure stands alone
	}
	if !res.Completed {
		return
	}
	if r.Spec.Scenario == "l0-full" {
		c38EmitL0Full(c, r, s, fillsets, emit)
		return
	}
	for v := 0; v < 6; v++ {
		fills := fillsets[(v+int(r.Spec.Seed))%len(fillsets)]
		p := &c38Prog{}
		e := c38Exp{}
		a := c38Min(okC, 4+c.Rng.Intn(8))
		rd := c38Min(rdC, 1+c.Rng.Intn(3))
		switch r.Spec.Scenario {
		case "stall", "batch-subscribe", "streamwriter", "gc-flatten":
			pre := s + m + 3
			if r.Spec.Scenario == "stall" && okC >= pre && v < 3 {
				// drive the model into the stalled state (the input records whether the sampled real
				// counters showed it in this run: snap.stall_seen / snap.stall_and_full)
				acked, infl := p.stallPrefix(m, s, v > 0)
				e.ok = acked + infl
				for i := 0; i < rd; i++ {
					p.do("E_read")
				}
				p.runQ([]bool{false})
				e.rd = rd
			}
			// phase A: explicit sends (the lock is free between them), the writer batches them
			x := c.Rng.Intn(a + 1)
			for i := 0; i < x; i++ {
				p.send()
				if i%3 == 2 {
					p.run(1+c.Rng.Intn(9), fills)
				}
			}
			// conflicts observed on the real DB: a commit that fails newCommitTs releases the lock
			for i := 0; i < c38Min(c38Sum(up, "ErrConflict"), 1+v%2); i++ {
				p.do("E_commit", "L_acq", "H_conflict")
			}
			// phase B: callers queue on writeChLock, readers begin; the scheduler serves them
			for i := x; i < a; i++ {
				p.do("E_commit")
			}
			for i := 0; i < rd; i++ {
				p.do("E_read")
				e.rd++
			}
			if v%2 == 0 {
				p.run(3+c.Rng.Intn(20), fills)
			}
			e.ok += a
			if r.Spec.Scenario == "gc-flatten" {
				p.do("E_gc", "E_gc") // the second call is rejected (garbageCh held)
				if v%2 == 0 {
					p.do("G_none") // ErrNoRewrite
				} else {
					e.ok++ // the rewrite's batchSet request goes through the pipeline and is acknowledged
				}
			}
			p.runQ(fills)
			if closed {
				if r.Spec.Scenario == "gc-flatten" {
					p.do("E_gc") // GC racing Close
				}
				p.do("E_close")
				p.runQ(fills)
				e.closed = true
			}
		case "close-inflight", "close-vs-newtxn":
			for i := 0; i < a; i++ {
				p.send()
			}
			p.runQ(fills)
			e.ok = a
			park := c38Min(blkC, 1+v%3)
			if okC > a {
				p.send() // a request still in writeCh when Close begins: it is served
				e.ok++
			}
			if park > 0 {
				p.parkTs()
				for i := 1; i < park; i++ {
					p.do("E_commit")
				}
			}
			for i := 0; i < rd; i++ {
				p.do("E_read")
			}
			e.rd = rd
			p.do("E_close")
			if okC > a && v >= 3 {
				// the request still in writeCh is picked up by doWrites' closedCase drain loop
				p.do("C_gc", "C_sig", "W_sig", "W_drain")
			}
			if v%2 == 1 && park > 0 {
				p.do("E_commit") // a commit that begins after Close began
				park++
			}
			e.blk = park
			p.runQ(fills)
			e.closed = closed
		case "drop":
			dp := res.Calls["DropPrefix"]
			da := res.Calls["DropAll"]
			dok := c38Sum(dp, "ok") + c38Sum(da, "ok")
			dbl := c38Sum(dp, "ErrBlockedWrites") + c38Sum(da, "ErrBlockedWrites")
			for i := 0; i < a; i++ {
				p.send()
				if i%2 == 1 {
					p.run(3, fills)
				}
			}
			e.ok = a
			edrop := "(E_drop true)"
			if v%2 == 1 && c38Sum(da, "ok") > 0 {
				edrop = "(E_drop false)"
			}
			if dok > 0 {
				p.do(edrop)
				if blkC > 0 {
					p.parkTs()
					e.blk = 1
				}
				if dbl > 0 {
					p.do("(E_drop true)")
					e.dblk = 1
				}
				if v%2 == 1 {
					// DropAll: the memtable is thrown away instead of flushed
					p.run(40, fills)
				}
				p.runQ(fills)
				e.drop = 1
				// writes work again after the drop
				p.send()
				p.runQ(fills)
				e.ok++
			} else {
				p.runQ(fills)
			}
			if closed {
				p.do("E_close")
				p.runQ(fills)
				e.closed = true
			}
		default:
			return
		}
		emit(r.Spec.Scenario, true, p, e, v)
	}
}

// ---------------------------------------------------------------------------------------------
// l0-full: the observed order of hook events against the model's accepted traces
// ---------------------------------------------------------------------------------------------

func (p *c38Prog) any(ls ...string) { p.ins = append(p.ins, "Any "+ListOf(ls)) }

// l0FullPrefix drives the model into the state of a freshly opened DB whose level 0 holds s
// tables: compactors idle (none has had a run), writer and flusher idle, a small non-empty
// memtable. (The model has no re-Open; the open/commit/close cycles that built the tables on the
// real DB are s+1 commits here, s of which fill a memtable that is flushed.)
func (p *c38Prog) l0FullPrefix(s int) (acked int) {
	one := func() { p.send(); p.do("W_recv", "W_push") }
	one()
	p.do("(J_write true)", "J_done")
	acked++
	for i := 1; i <= s; i++ {
		one()
		p.do("J_rotate")
		if i < s {
			p.do("(J_write true)")
		} else {
			p.do("(J_write false)")
		}
		p.do("J_done", "F_take", "F_add")
		acked++
	}
	return acked
}

// l0Events turns the hook events of one call into model instructions, in the observed order:
//   flush.table of the waiter (its table is built, addLevel0Table comes next): with the model's
//     level 0 at the stall limit the waiter's label must be DISABLED (Not);
//   l0c.done (a level-0 compaction was installed, level 0 lost d tables): some compactor picks
//     level 0 and finishes (Any: which worker is not observable);
//   flush.manifest of the waiter (addLevel0Table returned): the waiter's label (Do).
// A hook fires AFTER the effect it reports: when the waiter's flush.manifest is logged while the
// model's level 0 is still full, the compaction that made room has been installed but not yet
// logged; it is the next l0c.done and is taken first.
func (p *c38Prog) l0Events(evs []c38Ev, s int, l0m *int, waiter string, own bool, takeFirst string) (waited, flushed, ok bool) {
	used := make([]bool, len(evs))
	compact := func(d int) {
		p.any("K0_startL0", "KO_startL0")
		p.any(fmt.Sprintf("(K0_finishL0 %d)", d), fmt.Sprintf("(KO_finishL0 %d)", d))
		*l0m -= d
	}
	pending := false
	for i, ev := range evs {
		switch ev.K {
		case "flush.table":
			if ev.Own != own || pending {
				return waited, flushed, false
			}
			if takeFirst != "" {
				p.do(takeFirst)
			}
			if *l0m >= s && ev.L0 >= s {
				// level 0 is full in the model and was seen full on the real DB: the waiter must wait
				p.not(waiter)
				waited = true
			}
			pending = true
		case "l0c.done":
			if ev.Own {
				continue // DropPrefix's own dropPrefixes compaction of level 0: part of the drop (D_do)
			}
			if !used[i] && ev.D >= 1 {
				used[i] = true
				compact(ev.D)
			}
		case "flush.manifest":
			if ev.Own != own || !pending {
				return waited, flushed, false
			}
			if *l0m >= s {
				for j := i + 1; j < len(evs); j++ {
					if evs[j].K == "l0c.done" && !evs[j].Own && !used[j] && evs[j].D >= 1 {
						used[j] = true
						compact(evs[j].D)
						break
					}
				}
			}
			p.do(waiter)
			*l0m++
			pending, flushed = false, true
		}
	}
	return waited, flushed, !pending
}

func c38EmitL0Full(c *Ctx, r *c38Run, s int, fillsets [][]bool, emit func(kind string, strict bool, p *c38Prog, e c38Exp, variant int)) {
	res := &r.Res
	blkC := c38Sum(res.Calls["Update"], "ErrBlockedWrites")
	for ti, tr := range res.L0Full {
		if tr == nil || !tr.Reached {
			c.Count("l0full:not-reached")
			continue
		}
		c.Count("l0full:reached:" + tr.API)
		if !tr.Returned {
			continue
		}
		evs := tr.Events
		if tr.Mark <= len(evs) {
			evs = evs[tr.Mark:]
		}
		for v := 0; v < 2; v++ {
			fills := fillsets[(v+ti+int(r.Spec.Seed))%len(fillsets)]
			p := &c38Prog{}
			e := c38Exp{}
			e.ok = p.l0FullPrefix(s)
			l0m := s
			ordered := true
			waited := false
			switch tr.API {
			case "DropPrefix", "DropAll":
				pfx := tr.API == "DropPrefix"
				if pfx {
					p.do("(E_drop true)")
				} else {
					p.do("(E_drop false)")
				}
				if tr.Writers && blkC > 0 && v == 1 {
					p.do("E_commit", "L_acq", "H_ts", "H_check") // a committer finds writes blocked
					e.blk = 1
				}
				p.do("D_sig", "W_sig", "W_default", "W_final", "J_done", "D_waitw", "D_default", "J_done", "D_stopf", "F_exit", "D_waitf")
				if pfx {
					p.do("D_view")
					q := &c38Prog{}
					l0q := l0m
					w, _, ok := q.l0Events(evs, s, &l0q, "D_flushmt", true, "")
					if ok {
						p.ins = append(p.ins, q.ins...)
						l0m, waited = l0q, w
					} else {
						ordered = false
					}
				} else {
					p.do("D_noview", "D_skipmt") // DropAll throws the memtable away: no flush, no stall
					for _, ev := range evs {
						if ev.K == "flush.table" || ev.K == "flush.manifest" {
							ordered = false // DropAll flushed a memtable?
						}
					}
					if ordered {
						q := &c38Prog{}
						q.l0Events(evs, s, &l0m, "", false, "")
						p.ins = append(p.ins, q.ins...)
					}
				}
				p.runQ(fills)
				e.drop = 1
				if tr.PostOK {
					p.send()
					p.runQ(fills)
					e.ok++
				}
				p.do("E_close")
				p.runQ(fills)
				e.closed = true
			case "Close":
				p.do("E_close", "C_gc", "C_sig", "W_sig", "W_default", "W_final", "J_done", "C_waitw", "C_closech", "C_mt", "C_stopf")
				q := &c38Prog{}
				l0q := l0m
				w, _, ok := q.l0Events(evs, s, &l0q, "F_add", false, "F_take")
				if ok {
					p.ins = append(p.ins, q.ins...)
					l0m, waited = l0q, w
				} else {
					ordered = false
				}
				p.runQ(fills)
				e.closed = true
			default: // Flatten, Update-burst, Backup+Stream: committers against a full level 0
				a := 4 + v + c.Rng.Intn(4)
				for i := 0; i < a; i++ {
					p.send()
					if i%3 == 2 {
						p.run(1+c.Rng.Intn(9), []bool{true})
					}
				}
				p.runQ([]bool{true, v == 0})
				e.ok += a
				if tr.PostOK {
					p.send()
					p.runQ(fills)
					e.ok++
				}
				p.do("E_close")
				p.runQ(fills)
				e.closed = true
			}
			if waited {
				c.Count("l0full:stall-wait-observed:" + tr.API)
			}
			if !ordered {
				c.Count("l0full:events-not-ordered:" + tr.API)
			}
			emit("l0-full:"+tr.API, true, p, e, v+2*ti)
		}
	}
}
