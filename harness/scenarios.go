package main

// Deterministic witness histories for the findings recorded in known_findings.jsonl.
// Each runs on every check of the properties it concerns: a `known` finding must still
// reproduce (KNOWN-FINDING line), a `fixed` one must not (VIOLATION if it returns).

import (
	"fmt"
	"strings"
)

func (h *hist) l0IDs() []uint64 {
	var ids []uint64
	for _, t := range h.db.VerifDump()[0] {
		ids = append(ids, t.ID)
	}
	return ids
}

// commit1 runs one update transaction with the given writes (delete when v == nil)
func (h *hist) commit1(t int, kv ...[]byte) {
	h.begin(t, true, 0)
	for i := 0; i+1 < len(kv); i += 2 {
		if kv[i+1] == nil {
			h.modify(t, kv[i], nil, mDelete, 0, 0)
		} else {
			h.modify(t, kv[i], kv[i+1], 0, 0, 0)
		}
	}
	h.commit(t, 0)
}

// F1: an L0->L0 compaction leaves out an older L0 table; the tombstone it drops was hiding
// a version in that table.
func scenarioF1(c *Ctx) (*hist, bool, error) {
	h, err := newHist(c, sysOpts{Detect: true, NKeep: 1, MaxLevels: 4, VThreshold: 32, TableSize: 1 << 20, BaseLevelSize: 8 << 10})
	if err != nil {
		return nil, false, err
	}
	defer h.close()
	k := []byte("k")
	h.commit1(0, k, []byte("v1"))
	h.flush()
	old := h.l0IDs()[0]
	h.commit1(1, k, nil)
	h.flush()
	for i := 0; i < 3; i++ {
		h.commit1(2+i, []byte(fmt.Sprintf("x%d", i)), []byte("y"))
		h.flush()
	}
	// let the read watermark pass the tombstone
	h.begin(10, false, 0)
	h.discard(10)
	h.begin(11, false, 0)
	h.discard(11)
	h.backdate = func(id uint64) bool { return id != old }
	ok, err := h.compact(0, true, nil)
	if err != nil || !ok {
		return h, false, fmt.Errorf("F1 scenario: L0->L0 compaction did not run (%v)", err)
	}
	h.dump()
	nf := h.c.nFail
	h.begin(12, false, 0)
	h.get(12, k)
	h.discard(12)
	return h, h.c.nFail > nf, nil
}

// F3: a managed write batch writes k@5=v1, k@7=v2, k@5=v3; the last call on k@5 must win.
func scenarioF3(c *Ctx) (*hist, bool, error) {
	h, err := newHist(c, sysOpts{Managed: true, NKeep: 100, MaxLevels: 4, VThreshold: 32, TableSize: 1 << 20, BaseLevelSize: 8 << 10})
	if err != nil {
		return nil, false, err
	}
	defer h.close()
	k := []byte("k")
	nf := h.c.nFail
	t := h.batch(0, 2, 0, []batchCall{{Key: k, Val: []byte("v1"), Ver: 5}, {Key: k, Val: []byte("v2"), Ver: 7}, {Key: k, Val: []byte("v3"), Ver: 5}})
	h.begin(t, false, 5)
	h.get(t, k)
	h.discard(t)
	h.begin(t+1, false, 9)
	h.get(t+1, k)
	h.iterate(t+1, itOpts{All: true}, nil)
	h.discard(t + 1)
	return h, h.c.nFail > nf, nil
}

// F10: managed mode; a delete at version 7 is compacted away, then an older version 5 is written.
func scenarioF10(c *Ctx) (*hist, bool, error) {
	h, err := newHist(c, sysOpts{Managed: true, NKeep: 1, MaxLevels: 4, VThreshold: 32, TableSize: 1 << 20, BaseLevelSize: 8 << 10})
	if err != nil {
		return nil, false, err
	}
	defer h.close()
	k := []byte("k")
	h.begin(0, true, 0)
	h.modify(0, k, nil, mDelete, 0, 0)
	h.commit(0, 7)
	if err := h.flush(); err != nil {
		return h, false, err
	}
	h.setDiscard(7)
	if ok, err := h.compact(0, false, nil); err != nil || !ok {
		return h, false, fmt.Errorf("F10 scenario: compaction did not run (%v)", err)
	}
	h.begin(1, true, 0)
	h.modify(1, k, []byte("v5"), 0, 0, 0)
	h.commit(1, 5)
	nf := h.c.nFail
	h.begin(2, false, 9)
	h.get(2, k)
	h.discard(2)
	return h, h.c.nFail > nf, nil
}

// F33: forward iterator with Prefix p and Seek(k), k < p: the cursor parks on a key of [k, p)
// and the iteration ends at once although keys >= k inside the prefix exist (memtable-resident
// keys only: pickTables hides tables outside the prefix, so the result depended on placement).
// Fixed in /repo ("fix: clamp a forward Seek below the iterator prefix to the prefix").
func scenarioF33(c *Ctx) (*hist, bool, error) {
	h, err := newHist(c, sysOpts{NKeep: 1, MaxLevels: 4, VThreshold: 32, TableSize: 1 << 20, BaseLevelSize: 8 << 10})
	if err != nil {
		return nil, false, err
	}
	defer h.close()
	h.begin(0, true, 0)
	h.modify(0, []byte("a"), []byte("1"), 0, 0, 0)
	h.modify(0, []byte("b"), []byte("2"), 0, 0, 0)
	h.modify(0, []byte("bc"), []byte("3"), 0, 0, 0)
	h.commit(0, 0)
	nf := h.c.nFail
	h.begin(1, false, 0)
	h.iterate(1, itOpts{Prefix: []byte("b")}, []byte("a"))
	h.iterate(1, itOpts{Prefix: []byte("b"), Prefetch: true, PrefetchSize: 2}, []byte("aa"))
	h.discard(1)
	return h, h.c.nFail > nf, nil
}

// pick-tables: a level >= 1 with several small tables; an iterator with Prefix and SinceTs makes
// IteratorOptions.pickTables filter that level (older tables dropped by SinceTs, newer kept);
// plain reads of the same level afterwards must still see every table. Not tied to a finding.
func scenarioPickTables(c *Ctx) (*hist, bool, error) {
	h, err := newHist(c, sysOpts{NKeep: 100, MaxLevels: 4, VThreshold: 1 << 10, TableSize: 256, BaseLevelSize: 8 << 10})
	if err != nil {
		return nil, false, err
	}
	defer h.close()
	val := func(i, g int) []byte {
		return []byte(fmt.Sprintf("value-%02d-gen%d-%s", i, g, strings.Repeat("x", 30)))
	}
	t := 0
	write := func(from, to, g int) {
		h.begin(t, true, 0)
		for i := from; i < to; i++ {
			h.modify(t, []byte(fmt.Sprintf("p%02d", i)), val(i, g), 0, 0, 0)
		}
		h.commit(t, 0)
		t++
	}
	write(0, 24, 0)
	if err := h.flush(); err != nil {
		return h, false, err
	}
	if ok, err := h.compact(0, false, nil); err != nil || !ok {
		return h, false, fmt.Errorf("pick-tables scenario: compaction 1 did not run (%v)", err)
	}
	since := h.db.VerifNextTs() - 1 // every version so far is hidden by SinceTs
	write(12, 24, 1)
	write(18, 24, 2)
	if err := h.flush(); err != nil {
		return h, false, err
	}
	if ok, err := h.compact(0, false, nil); err != nil || !ok {
		return h, false, fmt.Errorf("pick-tables scenario: compaction 2 did not run (%v)", err)
	}
	h.dump()
	nf := h.c.nFail
	h.begin(t, false, 0)
	for _, pre := range []string{"p", "p1", "p0", "p2"} {
		h.iterate(t, itOpts{Prefix: []byte(pre), Since: since}, nil)
		h.iterate(t, itOpts{Prefix: []byte(pre), Since: since + 1, Prefetch: true, PrefetchSize: 2}, nil)
		h.iterate(t, itOpts{Prefix: []byte(pre)}, nil)
		h.iterate(t, itOpts{}, nil)
	}
	for i := 0; i < 24; i += 3 {
		h.get(t, []byte(fmt.Sprintf("p%02d", i)))
	}
	h.iterate(t, itOpts{Reverse: true}, nil)
	h.discard(t)
	return h, h.c.nFail > nf, nil
}

// expired-pending: a read-write transaction overwrites live committed keys with entries whose
// TTL has already lapsed (and with a delete): its own Get and iterators must hide the keys — the
// pending write is the newest version, however dead — and never fall through to the snapshot.
func scenarioExpiredPending(c *Ctx) (*hist, bool, error) {
	h, err := newHist(c, sysOpts{Detect: true, NKeep: 1, MaxLevels: 4, VThreshold: 32, TableSize: 1 << 20, BaseLevelSize: 8 << 10})
	if err != nil {
		return nil, false, err
	}
	defer h.close()
	h.begin(0, true, 0)
	for _, k := range []string{"a", "ab", "b", "c"} {
		h.modify(0, []byte(k), []byte("live-"+k), 0, 1, 0)
	}
	h.commit(0, 0)
	if err := h.flush(); err != nil {
		return h, false, err
	}
	nf := h.c.nFail
	h.begin(1, true, 0)
	h.modify(1, []byte("a"), []byte("dead"), 0, 2, 1)     // expired long ago
	h.modify(1, []byte("b"), nil, mDelete, 0, 0)          // pending delete
	h.modify(1, []byte("d"), []byte("dead-new"), 0, 0, 1) // expired, no committed version below
	for _, k := range []string{"a", "ab", "b", "c", "d"} {
		h.get(1, []byte(k))
	}
	h.iterate(1, itOpts{}, nil)
	h.iterate(1, itOpts{Reverse: true}, nil)
	h.iterate(1, itOpts{Prefix: []byte("a")}, nil)
	h.iterate(1, itOpts{All: true}, nil)
	h.commit(1, 0)
	h.begin(2, false, 0)
	for _, k := range []string{"a", "ab", "b", "c", "d"} {
		h.get(2, []byte(k))
	}
	h.iterate(2, itOpts{}, nil)
	h.discard(2)
	return h, h.c.nFail > nf, nil
}

type scenario struct {
	id  string
	run func(c *Ctx) (*hist, bool, error)
}

var scenarios = map[string][]scenario{
	"C12": {{"F1", scenarioF1}},
	"C27": {{"F3", scenarioF3}},
	"C36": {{"F3", scenarioF3}, {"F10", scenarioF10}},
	"C01": {{"F1", scenarioF1}},
	"C05": {{"F33", scenarioF33}, {"pick-tables", scenarioPickTables}},
	"C04": {{"expired-pending", scenarioExpiredPending}},
	"C33": {{"expired-pending", scenarioExpiredPending}},
}

// runScenarios executes the witnesses for a property first (corpus), as correspondence cases
func runScenarios(c *Ctx, prop string) error {
	if prop == "C27" || prop == "C36" {
		scenarioF19(c)
	}
	for _, s := range scenarios[prop] {
		before := c.nFail
		h, reproduced, err := s.run(c)
		if err != nil {
			return err
		}
		_ = before
		c.Case("witness-"+s.id, h.term(), histInput(h))
		c.Extra["witness_"+s.id+"_reproduced"] = reproduced
	}
	return nil
}
