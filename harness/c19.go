package main

// C19 — bloom filters never hide a key that is present.
// Correspondence: y.Hash, y.NewFilter (filter bytes), Filter.MayContain / MayContainKey on
// members, non-members and garbage filters, tables really built with table.Builder and opened
// with table.OpenInMemoryTable (filter bytes of the index, Table.DoesNotHave).
// Property oracle (independent of the model): every added hash passes MayContain; every added
// key passes !DoesNotHave on the built table (also for other versions of the same user key and
// for the user key as a key-iterator prefix); Get and NewKeyIterator on a real DB with several
// L0 tables find every written key for the BloomFalsePositive chosen.

import (
	"bytes"
	"fmt"
	"math"
	"os"
	"path/filepath"
	"sort"

	badger "github.com/dgraph-io/badger/v4"
	"github.com/dgraph-io/badger/v4/options"
	"github.com/dgraph-io/badger/v4/table"
	"github.com/dgraph-io/badger/v4/y"
)

func init() { register("C19", runC19) }

var u32Edges = []uint32{0, 1, 2, 63, 64, 65, 127, 128, 1 << 15, 1 << 17, 1<<17 - 1, 1 << 31, 1<<31 - 1,
	math.MaxUint32, math.MaxUint32 - 1, 0xaaaaaaaa, 0x55555555, 0xffff0000, 0x0000ffff}

func (c *Ctx) h32() uint32 {
	switch c.Rng.Intn(4) {
	case 0:
		return u32Edges[c.Rng.Intn(len(u32Edges))]
	case 1:
		return uint32(c.Rng.Intn(200))
	}
	return c.Rng.Uint32()
}

func (c *Ctx) hashList(maxN int) []uint32 {
	n := c.Rng.Intn(maxN + 1)
	hs := make([]uint32, n)
	for i := range hs {
		hs[i] = c.h32()
	}
	return hs
}

// false-positive settings: inside (0,1) with every magnitude, the boundaries, and values the
// option does not forbid (>= 1, +Inf) which make BloomBitsPerKey return <= 0
func (c *Ctx) fpRate() float64 {
	switch c.Rng.Intn(8) {
	case 0:
		return 0.01
	case 1:
		return []float64{0.5, 0.99, 0.999999999, 1e-300, 5e-324, math.SmallestNonzeroFloat64, 0.1, 0.25, 1e-9}[c.Rng.Intn(9)]
	case 2:
		return []float64{1, 2, 1e9, math.Inf(1)}[c.Rng.Intn(4)]
	case 3:
		return math.Pow(10, -c.Rng.Float64()*300)
	}
	return math.Pow(10, -c.Rng.Float64()*6)
}

func (c *Ctx) bitsPerKey(n int) int {
	switch c.Rng.Intn(5) {
	case 0:
		return c.Rng.Intn(56) - 5
	case 1:
		return []int{-1 << 40, -1, 0, 1, 2, 3, 42, 43, 44, 45, 64, 100, 145, 146, 1000}[c.Rng.Intn(15)]
	case 2:
		return y.BloomBitsPerKey(n, c.fpRate())
	}
	return 1 + c.Rng.Intn(14)
}

func u32List(hs []uint32) string {
	it := make([]string, len(hs))
	for i, h := range hs {
		it[i] = fmt.Sprintf("%d", h)
	}
	return ListOf(it)
}

func optBool(b bool, panicked bool) string {
	if panicked {
		return "None"
	}
	return Some(Bool(b))
}

func (c *Ctx) garbageFilter() []byte {
	switch c.Rng.Intn(6) {
	case 0:
		return nil
	case 1:
		return []byte{byte(c.Rng.Intn(256))}
	case 2: // reserved k
		f := c.rawBytes(12)
		return append(f, byte(31+c.Rng.Intn(225)))
	case 3: // k = 0
		f := c.rawBytes(12)
		return append(f, 0)
	case 4: // all ones
		n := 1 + c.Rng.Intn(12)
		f := bytes.Repeat([]byte{0xff}, n)
		return append(f, byte(c.Rng.Intn(31)))
	}
	n := 1 + c.Rng.Intn(16)
	f := make([]byte, n)
	for i := range f {
		f[i] = byte(c.Rng.Intn(256))
	}
	return append(f, byte(c.Rng.Intn(31)))
}

// user keys from a small alphabet (shared prefixes; many lengths mod 4 for Hash's tail switch)
func (c *Ctx) userKeys(n int) [][]byte {
	seen := map[string]bool{}
	var out [][]byte
	for len(out) < n {
		k := c.key(9)
		if c.Rng.Intn(4) == 0 {
			k = append(k, []byte(fmt.Sprintf("%04d", c.Rng.Intn(10000)))...)
		}
		if seen[string(k)] {
			if len(seen) > 40 {
				k = append(k, []byte(fmt.Sprintf("-%d", len(out)))...)
			} else {
				continue
			}
		}
		seen[string(k)] = true
		out = append(out, k)
	}
	return out
}

type c19Table struct {
	ikeys  [][]byte
	stale  []bool // entry added with Builder.AddStaleKey instead of Builder.Add
	fp     float64
	bits   int
	tbl    *table.Table
	bf     []byte
	hasBf  bool
	fpPos  bool
	blocks int
}

func (c *Ctx) buildC19Table(ikeys [][]byte, stale []bool, fp float64) (*c19Table, error) {
	opts := table.Options{BlockSize: 256 + c.Rng.Intn(4096), BloomFalsePositive: fp, TableSize: 1 << 20,
		Compression: options.None}
	if c.Rng.Intn(4) == 0 {
		opts.Compression = options.Snappy
	}
	b := table.NewTableBuilder(opts)
	defer b.Close()
	for i, k := range ikeys {
		vs := y.ValueStruct{Value: []byte(fmt.Sprintf("v%d", i)), Meta: 0, UserMeta: byte(i)}
		if stale[i] {
			// what compaction does for kept tombstones / expired entries / versions below a
			// discard-earlier marker
			vs.Meta = 1
			b.AddStaleKey(k, vs, 0)
		} else {
			b.Add(k, vs, 0)
		}
	}
	data := b.Finish()
	t, err := table.OpenInMemoryTable(data, uint64(c.nCases+1), &opts)
	if err != nil {
		return nil, err
	}
	bf, has := t.VerifBloomFilter()
	return &c19Table{ikeys: ikeys, stale: stale, fp: fp, bits: y.BloomBitsPerKey(len(ikeys), fp), tbl: t, bf: bf, hasBf: has, fpPos: fp > 0}, nil
}

func bytesList(bs [][]byte) string {
	it := make([]string, len(bs))
	for i, b := range bs {
		it[i] = B(b)
	}
	return ListOf(it)
}

func runC19(c *Ctx) error {
	c.Setup("Keys Bloom CorrC19", "run_case")
	type J = map[string]interface{}
	scratch := os.Getenv("VERIF_SCRATCH_DIR")
	if scratch == "" {
		scratch = os.TempDir()
	}
	var lastTbl *c19Table
	dbRuns := 0
	histRuns := 0
	for i := 0; c.nCases < c.N; i++ {
		switch i % 12 {
		case 0, 1: // Hash
			var b []byte
			switch c.Rng.Intn(5) {
			case 0:
				b = c.key(12)
			case 1:
				b = c.rawBytes(40)
			case 2:
				b = bytes.Repeat([]byte{0xff}, c.Rng.Intn(10))
			case 3:
				b = c.rawBytes(300)
			default:
				b = make([]byte, c.Rng.Intn(9))
				c.Rng.Read(b)
			}
			c.Case("Hash", fmt.Sprintf("(HashC %s %d)", B(b), y.Hash(b)), J{"b": b})
		case 2, 3, 4: // NewFilter + members / non-members
			maxN := 40
			if c.Rng.Intn(25) == 0 {
				maxN = 400
			}
			hs := c.hashList(maxN)
			bits := c.bitsPerKey(len(hs))
			if len(hs)*bits > 6000 {
				bits = 10
			}
			var f y.Filter
			p := recoverPanic(func() { f = y.NewFilter(hs, bits) })
			rt := "None"
			if !p {
				rt = Some(B(f))
			}
			c.Case("NewFilter", fmt.Sprintf("(NewF %s %s %s)", u32List(hs), Zz(int64(bits)), rt), J{"hs": hs, "bits": bits})
			if p {
				c.Oracle(false, "newfilter-panic", "y.NewFilter panicked on a small input", J{"hs": hs, "bits": bits})
				continue
			}
			// property oracle: no false negatives, shape
			ok := true
			for _, h := range hs {
				if !f.MayContain(h) {
					ok = false
				}
			}
			c.Oracle(ok, "bloom-false-negative", "MayContain(h) = false for an added hash", J{"hs": hs, "bits": bits})
			c.Oracle(len(f) >= 9 && f[len(f)-1] >= 1 && f[len(f)-1] <= 30, "bloom-filter-shape", "filter shorter than 9 bytes or k outside 1..30", J{"hs": hs, "bits": bits})
			// MayContain cases on this filter: a member, a non-member, a near-member
			var qs []uint32
			if len(hs) > 0 {
				h := hs[c.Rng.Intn(len(hs))]
				qs = append(qs, h, h+1, h^(1<<uint(c.Rng.Intn(32))))
			}
			qs = append(qs, c.h32())
			items := make([]string, len(qs))
			for j, q := range qs {
				items[j] = fmt.Sprintf("(%d, %s)", q, optBool(f.MayContain(q), false))
			}
			c.Case("MayContain", fmt.Sprintf("(May %s %s)", B(f), ListOf(items)), J{"f": []byte(f), "hs": qs})
		case 5: // exhaustive small bitsPerKey (k not saturated) + sign + saturation boundary
			b := (i / 12) % 60
			bits := b - 8
			hs := c.hashList(3)
			f := y.NewFilter(hs, bits)
			c.Case("NewFilterK", fmt.Sprintf("(NewF %s %s %s)", u32List(hs), Zz(int64(bits)), Some(B(f))), J{"hs": hs, "bits": bits})
		case 6: // garbage filters
			f := y.Filter(c.garbageFilter())
			h := c.h32()
			var r bool
			p := recoverPanic(func() { r = f.MayContain(h) })
			c.Case("MayGarbage", fmt.Sprintf("(May %s [(%d, %s)])", B(f), h, optBool(r, p)), J{"f": []byte(f), "h": h})
			if len(f) < 2 {
				c.Oracle(!p && !r, "bloom-short-filter", "MayContain on a filter shorter than 2 bytes is not false", J{"f": []byte(f)})
			} else if f[len(f)-1] > 30 {
				c.Oracle(!p && r, "bloom-reserved-k", "MayContain with reserved k > 30 is not true", J{"f": []byte(f)})
			}
		case 7: // keys
			keys := c.userKeys(1 + c.Rng.Intn(12))
			hs := make([]uint32, len(keys))
			for j, k := range keys {
				hs[j] = y.Hash(k)
			}
			bits := c.bitsPerKey(len(hs))
			if bits > 64 {
				bits = 10
			}
			f := y.NewFilter(hs, bits)
			k := keys[c.Rng.Intn(len(keys))]
			if c.Rng.Intn(2) == 0 {
				k = append(append([]byte{}, k...), byte(c.Rng.Intn(256)))
			}
			c.Case("MayContainKey", fmt.Sprintf("(MayKey %s %s %s)", B(f), B(k), optBool(f.MayContainKey(k), false)), J{"f": []byte(f), "k": k})
			ok := true
			for _, kk := range keys {
				if !f.MayContainKey(kk) {
					ok = false
				}
			}
			c.Oracle(ok, "bloom-false-negative-key", "MayContainKey(k) = false for an added key", J{"keys": keys, "bits": bits})
		case 8, 9: // a really built table
			nk := 1 + c.Rng.Intn(20)
			if c.Rng.Intn(40) == 0 {
				nk = 100 + c.Rng.Intn(200)
			}
			uks := c.userKeys(nk)
			var ikeys [][]byte
			for _, uk := range uks {
				nv := 1
				if c.Rng.Intn(4) == 0 {
					nv = 1 + c.Rng.Intn(3)
				}
				seen := map[uint64]bool{}
				for v := 0; v < nv; v++ {
					ts := uint64(c.Rng.Intn(20))
					if c.Rng.Intn(10) == 0 {
						ts = c.u64()
					}
					if seen[ts] {
						continue
					}
					seen[ts] = true
					ikeys = append(ikeys, y.KeyWithTs(uk, ts))
				}
			}
			sort.Slice(ikeys, func(a, b int) bool { return y.CompareKeys(ikeys[a], ikeys[b]) < 0 })
			if c.Rng.Intn(25) == 0 { // boundary: a single internal key shorter than 8 bytes (ParseKey = nil)
				ikeys = [][]byte{c.rawBytes(7)}
				if len(ikeys[0]) == 0 {
					ikeys[0] = []byte{1}
				}
			}
			fp := c.fpRate()
			if c.Rng.Intn(6) == 0 {
				fp = 0 // filter disabled
			}
			if fp > 0 && len(ikeys)*y.BloomBitsPerKey(len(ikeys), fp) > 12000 {
				fp = 0.01 // keep the filter literal in the Coq case file small (deep terms overflow coqc's stack)
			}
			// every entry goes through Builder.Add or Builder.AddStaleKey (random mix; sometimes
			// all stale, sometimes alternating so that a stale entry follows a different user key)
			stale := make([]bool, len(ikeys))
			mode := c.Rng.Intn(5)
			for j := range stale {
				switch mode {
				case 0:
					stale[j] = false
				case 1:
					stale[j] = true
				case 2:
					stale[j] = j%2 == 1
				default:
					stale[j] = c.Rng.Intn(3) == 0
				}
			}
			var t *c19Table
			var err error
			p := recoverPanic(func() { t, err = c.buildC19Table(ikeys, stale, fp) })
			if p || err != nil {
				c.Count("table-build-skipped")
				continue
			}
			lastTbl = t
			// probes: every added key, other versions of the same user keys, foreign keys
			type probe struct {
				k   []byte
				dnh bool
			}
			var probes []probe
			okAdded, okVers := true, true
			okStale, okMCK := true, true
			for j, ik := range ikeys {
				d := t.tbl.DoesNotHave(y.Hash(y.ParseKey(ik)))
				if d && !stale[j] {
					okAdded = false
				}
				if d && stale[j] {
					okStale = false
				}
				if t.hasBf && !y.Filter(t.bf).MayContainKey(y.ParseKey(ik)) {
					okMCK = false
				}
				if len(probes) < 12 {
					probes = append(probes, probe{ik, d})
				}
			}
			for j := 0; j < 4 && len(ikeys[0]) >= 8; j++ {
				ik := y.KeyWithTs(y.ParseKey(ikeys[c.Rng.Intn(len(ikeys))]), c.u64())
				d := t.tbl.DoesNotHave(y.Hash(y.ParseKey(ik)))
				if d {
					okVers = false
				}
				probes = append(probes, probe{ik, d})
			}
			for j := 0; j < 6; j++ {
				ik := y.KeyWithTs(c.key(10), uint64(c.Rng.Intn(5)))
				if c.Rng.Intn(6) == 0 {
					ik = c.rawBytes(7) // short: ParseKey = nil
				}
				probes = append(probes, probe{ik, t.tbl.DoesNotHave(y.Hash(y.ParseKey(ik)))})
			}
			items := make([]string, len(probes))
			for j, pr := range probes {
				items[j] = fmt.Sprintf("(%s, %s)", B(pr.k), Bool(pr.dnh))
			}
			adds := make([]string, len(ikeys))
			for j, ik := range ikeys {
				adds[j] = fmt.Sprintf("(%s, %s)", Bool(stale[j]), B(ik))
			}
			c.Case("Table", fmt.Sprintf("(Tbl %s %s %s %s %s)", ListOf(adds), Bool(t.fpPos), Zz(int64(t.bits)), B(t.bf), ListOf(items)),
				J{"ikeys": ikeys, "stale": stale, "fp": fmt.Sprint(fp)})
			c.Oracle(okStale, "table-bloom-hides-stale-added-key", "DoesNotHave(Hash(ParseKey(k))) = true for a key added with Builder.AddStaleKey", J{"ikeys": ikeys, "stale": stale, "fp": fmt.Sprint(fp)})
			c.Oracle(okMCK, "table-bloom-maycontainkey-false", "Filter(index bloom).MayContainKey(userKey) = false for a key added to the table (Add or AddStaleKey)", J{"ikeys": ikeys, "stale": stale, "fp": fmt.Sprint(fp)})
			c.Oracle(okAdded, "table-bloom-hides-added-key", "DoesNotHave(Hash(ParseKey(k))) = true for a key added to the table", J{"ikeys": ikeys, "stale": stale, "fp": fmt.Sprint(fp)})
			c.Oracle(okVers, "table-bloom-hides-other-version", "DoesNotHave = true for another version of an added user key", J{"ikeys": ikeys, "fp": fmt.Sprint(fp)})
			c.Oracle(t.hasBf == (len(t.bf) > 0) && (t.hasBf == (fp > 0)), "table-bloom-presence", "filter present iff BloomFalsePositive > 0", J{"fp": fmt.Sprint(fp)})
			if fp > 0 && fp < 1 {
				c.Oracle(t.bits >= 1, "bloom-bits-per-key", "BloomBitsPerKey < 1 for a rate inside (0,1)", J{"fp": fmt.Sprint(fp), "n": len(ikeys)})
			}
		case 10: // key-iterator style probe (prefixIsKey)
			if lastTbl == nil {
				continue
			}
			t := lastTbl
			var prefix []byte
			member := c.Rng.Intn(2) == 0
			if member {
				prefix = y.ParseKey(t.ikeys[c.Rng.Intn(len(t.ikeys))])
			} else {
				prefix = c.key(10)
			}
			d := t.tbl.DoesNotHave(y.Hash(prefix))
			c.Case("Pick", fmt.Sprintf("(Pick %s %s %s)", B(t.bf), B(prefix), Bool(d)), J{"bf": t.bf, "prefix": prefix})
			if member {
				c.Oracle(!d, "table-bloom-hides-key-prefix", "DoesNotHave(Hash(userKey)) = true for a user key of the table", J{"ikeys": t.ikeys, "prefix": prefix})
			}
		case 11: // the uint32 bit count wraps to 0: h % 0 panics (needs a 512 MiB zero slice: once)
			if i/12 == 0 {
				h := c.h32()
				bits := 1 << 32
				p := recoverPanic(func() { _ = y.NewFilter([]uint32{h}, bits) })
				rt := "None"
				if !p {
					rt = "(Some [])"
				}
				c.Case("NewFilterWrap", fmt.Sprintf("(NewF %s %s %s)", u32List([]uint32{h}), Zz(int64(bits)), rt), J{"hs": []uint32{h}, "bits": bits})
			}
			// tables written by flushes and compactions of real histories (deletes, expired
			// entries, discard-earlier markers): every stored user key must pass its table's filter
			if histRuns < 6+c.N/60 {
				histRuns++
				if err := c19HistOracle(c, histRuns); err != nil {
					return fmt.Errorf("history oracle: %v", err)
				}
			}
			// end-to-end oracle on a real DB (a few per run)
			if dbRuns < 2+c.N/400 {
				dbRuns++
				dir := filepath.Join(scratch, fmt.Sprintf("c19db%d", dbRuns))
				fp := c.fpRate()
				missing, err := c19DBOracle(c, dir, fp)
				os.RemoveAll(dir)
				if err != nil {
					return fmt.Errorf("db oracle: %v", err)
				}
				c.Oracle(len(missing) == 0, "db-bloom-hides-key", "Get / key iterator missed a written key", J{"fp": fmt.Sprint(fp), "missing": missing})
			}
		}
	}
	return nil
}

// c19DBOracle writes keys in several rounds (each round ends in its own L0 table: close +
// re-open flushes the memtable; no compactors), then reads every key back with Get and with a
// key iterator, which both consult the tables' bloom filters.
func c19DBOracle(c *Ctx, dir string, fp float64) ([]string, error) {
	opt := badger.DefaultOptions(dir).WithLogger(nil).WithBloomFalsePositive(fp).WithNumCompactors(0).
		WithMemTableSize(4 << 20).WithValueThreshold(1 << 10).WithValueLogFileSize(1 << 20).WithCompression(options.None).
		WithBlockCacheSize(0).WithIndexCacheSize(0)
	want := map[string]string{}
	rounds := 2 + c.Rng.Intn(3)
	for r := 0; r < rounds; r++ {
		db, err := badger.Open(opt)
		if err != nil {
			return nil, err
		}
		keys := c.userKeys(5 + c.Rng.Intn(40))
		err = db.Update(func(txn *badger.Txn) error {
			for _, k := range keys {
				if len(k) == 0 {
					continue
				}
				v := fmt.Sprintf("r%d-%x", r, k)
				if err := txn.Set(k, []byte(v)); err != nil {
					return err
				}
				want[string(k)] = v
			}
			return nil
		})
		if err != nil {
			db.Close()
			return nil, err
		}
		if err := db.Close(); err != nil {
			return nil, err
		}
	}
	db, err := badger.Open(opt)
	if err != nil {
		return nil, err
	}
	defer db.Close()
	c.Extra["db_l0_tables"] = len(db.Tables())
	var missing []string
	err = db.View(func(txn *badger.Txn) error {
		for k, v := range want {
			item, err := txn.Get([]byte(k))
			if err != nil {
				missing = append(missing, fmt.Sprintf("get %x: %v", k, err))
				continue
			}
			val, _ := item.ValueCopy(nil)
			if string(val) != v {
				missing = append(missing, fmt.Sprintf("get %x: value %q want %q", k, val, v))
			}
			it := txn.NewKeyIterator([]byte(k), badger.DefaultIteratorOptions)
			it.Rewind()
			if !it.Valid() || !bytes.Equal(it.Item().Key(), []byte(k)) {
				missing = append(missing, fmt.Sprintf("keyiter %x: not found", k))
			} else if val, _ := it.Item().ValueCopy(nil); string(val) != v {
				missing = append(missing, fmt.Sprintf("keyiter %x: value %q want %q", k, val, v))
			}
			it.Close()
		}
		return nil
	})
	return missing, err
}

// c19HistOracle runs a history on a real DB with the shared history helpers (harness/sys.go):
// writes with deletes, long-expired entries (ExpiresAt = 1) and discard-earlier markers, flushes
// and production compactions.  A reader opened before the writes (or discardTs = 0 in managed
// mode) keeps the versions above the discard watermark, so compaction re-adds tombstones,
// expired entries and versions below a discard marker through Builder.AddStaleKey.  After every
// flush / compaction every entry of every table is checked against the table's bloom filter.
func c19HistOracle(c *Ctx, seq int) error {
	managed := seq%2 == 0
	o := sysOpts{Managed: managed, Detect: false, NKeep: []int{1, 2, 3}[c.Rng.Intn(3)], MaxLevels: 4, VThreshold: 32,
		TableSize: int64(256) << uint(c.Rng.Intn(4)), BaseLevelSize: []int64{200, 600, 2 << 10}[c.Rng.Intn(3)]}
	h, err := newHist(c, o)
	if err != nil {
		return err
	}
	defer h.close()
	keys := keySetA[:4+c.Rng.Intn(8)]
	var trace []string
	checked, tablesSeen := 0, 0
	check := func(after string) {
		misses, nt, ne := h.db.VerifBloomMisses()
		checked += ne
		tablesSeen += nt
		ok := len(misses) == 0
		var ms []string
		for _, m := range misses {
			ms = append(ms, fmt.Sprintf("L%d table %d key %x@%d meta=%d doesNotHave=%v filterMiss=%v", m.Level, m.TableID, m.Key, m.Version, m.Meta, m.ByDoesNotHave, m.ByFilter))
			if len(ms) >= 5 {
				break
			}
		}
		c.Oracle(ok, "c19-table-bloom-misses-stored-key", "a table's bloom filter reports a user key stored in that table as absent (Get / key iterators skip the table)",
			J{"after": after, "misses": ms, "history": append([]string{}, h.desc...), "managed": managed})
	}
	nextT := 0
	var mts uint64 = 1
	if !managed && c.Rng.Intn(4) != 0 {
		// a long-lived reader pins the discard watermark
		h.begin(nextT, false, 0)
		nextT++
	}
	rounds := 3 + c.Rng.Intn(4)
	for r := 0; r < rounds; r++ {
		ntx := 1 + c.Rng.Intn(3)
		for x := 0; x < ntx; x++ {
			t := nextT
			nextT++
			h.begin(t, true, mts)
			nw := 1 + c.Rng.Intn(5)
			for w := 0; w < nw; w++ {
				k := keys[c.Rng.Intn(len(keys))]
				meta, exp := byte(0), uint64(0)
				switch c.Rng.Intn(6) {
				case 0, 1:
					meta = mDelete
				case 2:
					exp = 1
				case 3:
					meta = mDiscard
				}
				v := []byte(fmt.Sprintf("v%d.%d", r, w))
				h.modify(t, k, v, meta, byte(c.Rng.Intn(3)), exp)
			}
			mts++
			h.commit(t, mts)
		}
		if err := h.flush(); err != nil {
			return err
		}
		trace = append(trace, "flush")
		check("flush")
		if managed && c.Rng.Intn(4) == 0 {
			h.setDiscard(uint64(c.Rng.Intn(int(mts) + 1)))
		}
		nc := c.Rng.Intn(3)
		for x := 0; x < nc; x++ {
			lvl := 0
			if c.Rng.Intn(2) == 0 {
				d := h.db.VerifDump()
				for l := range d {
					if len(d[l]) > 0 && c.Rng.Intn(2) == 0 {
						lvl = l
					}
				}
			}
			did, err := h.compact(lvl, false, nil)
			if err != nil {
				return fmt.Errorf("compact: %w", err)
			}
			if did {
				check(fmt.Sprintf("compact L%d", lvl))
			}
		}
	}
	// push everything down
	for l := 0; l < 3; l++ {
		for x := 0; x < 3; x++ {
			did, err := h.compact(l, false, nil)
			if err != nil {
				return fmt.Errorf("compact: %w", err)
			}
			if !did {
				break
			}
			check(fmt.Sprintf("final compact L%d", l))
		}
	}
	c.Count("hist-oracle-histories")
	if n, _ := c.Extra["hist_entries_checked"].(int); true {
		c.Extra["hist_entries_checked"] = n + checked
	}
	if n, _ := c.Extra["hist_tables_checked"].(int); true {
		c.Extra["hist_tables_checked"] = n + tablesSeen
	}
	if n, _ := c.Extra["hist_compactions"].(int); true {
		c.Extra["hist_compactions"] = n + h.nCompact
	}
	return nil
}
