package main

// C03 (oracle-only phase): requests reach the writer in commit-timestamp order. A committer is
// held right before it hands its request to the write channel (hook sendToWriteCh.beforeSend,
// i.e. after it has been given its commit timestamp). A second transaction that writes the same
// key then tries to commit: it must not be able to get ahead — on the code as written it waits
// (it cannot even obtain a commit timestamp), which is the passing outcome. If it does get ahead
// (its Commit returns while the first is still held), the memtable is rotated and flushed between
// the two, the level-0 table is compacted, and every key must still read as its NEWEST commit
// says — the layering "newer data above older data" is what compaction relies on when it drops
// a delete marker for lack of overlap below.

import (
	"bytes"
	"fmt"
	"os"
	"path/filepath"
	"sync/atomic"
	"time"

	badger "github.com/dgraph-io/badger/v4"
)

func runC03CommitOrder(c *Ctx) error {
	rounds := 4
	if c.N >= 2000 {
		rounds = 24
	}
	for r := 0; r < rounds; r++ {
		done := make(chan error, 1)
		go func() { done <- c03OrderRound(c, r) }()
		select {
		case err := <-done:
			if err != nil {
				return err
			}
		case <-time.After(90 * time.Second):
			c.Oracle(false, "c03-commit-order-call-did-not-return", "a commit, flush, compaction or read of the commit-order phase did not return within 90 s", J{"round": r})
			return nil
		}
	}
	return nil
}

func c03OrderRound(c *Ctx, r int) error {
	dir := filepath.Join(os.Getenv("VERIF_SCRATCH_DIR"), fmt.Sprintf("c03ord_%d", r))
	os.RemoveAll(dir)
	defer os.RemoveAll(dir)
	db, err := openSysDB(dir, sysOpts{Detect: r%2 == 0, NKeep: 1, MaxLevels: 4, VThreshold: 32, TableSize: 1 << 20, BaseLevelSize: 8 << 10})
	if err != nil {
		return err
	}
	var armed atomic.Bool
	gate := make(chan struct{})
	inGate := make(chan struct{}, 1)
	badger.VerifSetController(&badger.VerifController{Point: func(name string, args ...uint64) {
		if name == "sendToWriteCh.beforeSend" && armed.CompareAndSwap(true, false) {
			inGate <- struct{}{}
			<-gate
		}
	}})
	released := false
	release := func() {
		if !released {
			released = true
			close(gate)
		}
	}
	defer func() {
		release()
		badger.VerifSetController(nil)
		db.Close()
	}()
	k := []byte("k")
	other := []byte(fmt.Sprintf("other-%d", r))
	// something older below, so that the interesting versions are not the only ones
	if err := db.Update(func(tx *badger.Txn) error { return tx.Set(k, []byte("v0")) }); err != nil {
		return err
	}
	firstDeletes := r%2 == 1
	// T1 (held): set k (or delete k); T2 (tries to overtake): the opposite
	t1 := db.NewTransaction(true)
	if firstDeletes {
		err = t1.Delete(k)
	} else {
		err = t1.Set(k, []byte("from-t1"))
	}
	if err != nil {
		return err
	}
	t1.Set(other, []byte("x"))
	// T2 must exist before T1 holds a commit timestamp: a NEW transaction's read timestamp waits
	// for every commit timestamp handed out so far
	t2 := db.NewTransaction(true) // no reads: cannot conflict
	armed.Store(true)
	e1 := make(chan error, 1)
	go func() { e1 <- t1.Commit() }()
	select {
	case <-inGate:
	case err := <-e1:
		return fmt.Errorf("c03order: first commit returned without reaching the hook: %v", err)
	case <-time.After(20 * time.Second):
		c.Oracle(false, "c03-commit-never-reached-write-channel", "a commit did not reach sendToWriteCh within 20 s", J{"round": r})
		return nil
	}
	if firstDeletes {
		err = t2.Set(k, []byte("from-t2"))
	} else {
		err = t2.Delete(k)
	}
	if err != nil {
		return err
	}
	e2 := make(chan error, 1)
	go func() { e2 <- t2.Commit() }()
	overtook := false
	select {
	case err := <-e2:
		if err != nil {
			return fmt.Errorf("c03order: second commit failed: %v", err)
		}
		overtook = true
	case <-time.After(400 * time.Millisecond):
	}
	c.Count(fmt.Sprintf("commit-order: second commit got ahead=%v", overtook))
	if overtook {
		// the later commit is already applied; put a memtable boundary between the two requests
		if err := db.VerifFlushMemtable(); err != nil {
			return err
		}
	}
	release()
	if err := <-e1; err != nil {
		return fmt.Errorf("c03order: first commit failed: %v", err)
	}
	if !overtook {
		if err := <-e2; err != nil {
			return fmt.Errorf("c03order: second commit failed: %v", err)
		}
	}
	check := func(where string) {
		var got []byte
		found := false
		var ver uint64
		db.View(func(tx *badger.Txn) error {
			it, err := tx.Get(k)
			if err == nil {
				found = true
				ver = it.Version()
				got, _ = it.ValueCopy(nil)
			}
			return nil
		})
		// T2 was issued after T1 had its commit timestamp: T2 is the newer commit
		ok := (firstDeletes && found && bytes.Equal(got, []byte("from-t2"))) || (!firstDeletes && !found)
		c.Oracle(ok, "c03-later-commit-not-the-visible-one-after-reordered-requests",
			"two commits of one key: after both returned, the key does not read as the commit with the larger timestamp says (requests reached the writer out of commit-timestamp order)",
			J{"round": r, "where": where, "second_commit_got_ahead": overtook, "first_commit_deletes": firstDeletes, "found": found, "version": ver, "value": string(got)})
	}
	check("after both commits")
	// let the read watermark pass both commits, then compact level 0 alone
	for i := 0; i < 2; i++ {
		db.View(func(tx *badger.Txn) error { return nil })
	}
	db.VerifSettleWatermarks()
	if overtook {
		if err := db.VerifCompact(0, false, nil); err != nil && !badger.VerifIsFillTablesErr(err) {
			return fmt.Errorf("c03order: compaction: %v", err)
		}
		check("after compacting the level-0 table that holds the later commit")
	}
	if err := db.VerifFlushMemtable(); err != nil {
		return err
	}
	if err := db.VerifCompact(0, false, nil); err != nil && !badger.VerifIsFillTablesErr(err) {
		return fmt.Errorf("c03order: compaction: %v", err)
	}
	check("after flushing and compacting everything")
	return nil
}
