package main

// Sequential histories against a real DB (NumCompactors = 0; flush and compaction happen only
// when the history says so, through the production flusher / doCompact).  Every label carries
// what the implementation returned; the Coq model replays the same labels (corr/CorrSys.v).
// Independently, a Go reference MVCC map (the property itself) checks every read.

import (
	"bytes"
	"errors"
	"fmt"
	"math"
	"os"
	"path/filepath"
	"sort"
	"strings"
	"sync"
	"time"

	badger "github.com/dgraph-io/badger/v4"
	"github.com/dgraph-io/badger/v4/options"
)

type J = map[string]interface{}

const (
	mDelete  = 1
	mDiscard = 4
	mMerge   = 8
	mMask    = mDelete | mDiscard | mMerge
)

type refWrite struct {
	Key   []byte
	Ver   uint64
	Meta  byte
	UMeta byte
	Exp   uint64
	Val   []byte
}

type sysOpts struct {
	Managed       bool
	Detect        bool
	NKeep         int
	MaxLevels     int
	InMemory      bool
	VThreshold    int64
	EncKey        []byte
	TableSize     int64
	BaseLevelSize int64
	MemSize       int64
	// storage-format options that must not change any observable result
	Compression int // 0 default, 1 none, 2 snappy, 3 zstd
	Checksums   int // 0 default, 1..3 = options.ChecksumVerificationMode OnTableRead/OnBlockRead/OnTableAndBlockRead
	BlockSize   int // 0 = 64
}

type hist struct {
	c                *Ctx
	o                sysOpts
	dir              string
	db               *badger.DB
	ops              []string
	desc             []string // human-readable op log (for replay files)
	txns             map[int]*badger.Txn
	tupd             map[int]bool
	ref              []refWrite // applied writes in call order (the specification's history)
	tpend            map[int][]refWrite
	next0            uint64
	mu               sync.Mutex
	cinfo            *badger.VerifCompactInfo
	cdisc            uint64
	cgot             bool
	nCompact, nFlush int
	failed           bool
	backdate         func(id uint64) bool // scenario override for the L0->L0 age filter
	sawL0L0          bool                 // an L0->L0 compaction ran (re-sorts L0 by smallest key: finding F8)
	sawSkip          bool                 // an L0->Lbase compaction skipped a non-empty level (finding F11)
	resurrectShape   bool                 // the read being judged shows a key/version the reference hides
	sameVerShape     bool                 // the read being judged shows the expected key@version with other content
}

func entTerm(k []byte, ver uint64, meta, umeta byte, exp uint64, v []byte) string {
	return fmt.Sprintf("(mkE %s %d %d %d %d %s)", B(k), ver, meta&mMask, umeta, exp, B(v))
}
func vEntTerm(e badger.VerifEntry) string {
	return entTerm(e.Key, e.Version, e.Meta, e.UserMeta, e.ExpiresAt, e.Value)
}
func idList(ids []uint64) string {
	s := make([]string, len(ids))
	for i, x := range ids {
		s[i] = fmt.Sprintf("%d", x)
	}
	return ListOf(s)
}

func openSysDB(dir string, o sysOpts) (*badger.DB, error) {
	opt := badger.DefaultOptions(dir)
	if o.InMemory {
		opt = badger.DefaultOptions("").WithInMemory(true)
	}
	opt = opt.WithLoggingLevel(badger.ERROR).WithNumCompactors(0).WithNumLevelZeroTables(1000).
		WithNumLevelZeroTablesStall(2000).WithMemTableSize(memSize(o)).WithValueLogFileSize(1 << 20).
		WithNumVersionsToKeep(o.NKeep).WithDetectConflicts(o.Detect).WithMaxLevels(o.MaxLevels).
		WithBaseTableSize(o.TableSize).WithBaseLevelSize(o.BaseLevelSize).WithLevelSizeMultiplier(2).
		WithNumMemtables(8).WithBlockSize(64).WithMetricsEnabled(false).WithCompactL0OnClose(false).WithBlockCacheSize(1 << 20)
	if !o.InMemory {
		opt = opt.WithValueThreshold(o.VThreshold)
	} else {
		opt = opt.WithValueThreshold(1024) // the in-memory value limit (default 1 MiB exceeds the batch limit of a 1 MiB memtable)
	}
	if len(o.EncKey) > 0 {
		opt = opt.WithEncryptionKey(o.EncKey).WithIndexCacheSize(1 << 20).WithBlockCacheSize(1 << 20)
	}
	switch o.Compression {
	case 1:
		opt = opt.WithCompression(options.None)
	case 2:
		opt = opt.WithCompression(options.Snappy)
	case 3:
		opt = opt.WithCompression(options.ZSTD).WithZSTDCompressionLevel(1)
	}
	if o.Checksums > 0 {
		opt = opt.WithChecksumVerificationMode(options.ChecksumVerificationMode(o.Checksums))
	}
	if o.BlockSize > 0 {
		opt = opt.WithBlockSize(o.BlockSize)
	}
	if o.Managed {
		return badger.OpenManaged(opt)
	}
	return badger.Open(opt)
}

func memSize(o sysOpts) int64 {
	if o.MemSize > 0 {
		return o.MemSize
	}
	return 1 << 20
}

var histSeq int

func newHist(c *Ctx, o sysOpts) (*hist, error) {
	histSeq++
	dir := filepath.Join(os.Getenv("VERIF_SCRATCH_DIR"), fmt.Sprintf("h%d", histSeq))
	if os.Getenv("VERIF_SCRATCH_DIR") == "" {
		dir = filepath.Join(os.TempDir(), fmt.Sprintf("verif_h%d_%d", os.Getpid(), histSeq))
	}
	os.RemoveAll(dir)
	os.MkdirAll(dir, 0o755)
	db, err := openSysDB(dir, o)
	if err != nil {
		return nil, err
	}
	h := &hist{c: c, o: o, dir: dir, db: db, txns: map[int]*badger.Txn{}, tupd: map[int]bool{}, tpend: map[int][]refWrite{}}
	h.next0 = db.VerifNextTs()
	badger.VerifSetController(&badger.VerifController{
		Point: func(name string, args ...uint64) {
			if name == "subcompact.discardTs" {
				h.mu.Lock()
				h.cdisc = args[0]
				h.mu.Unlock()
			}
		},
		NewTables: func(info *badger.VerifCompactInfo) {
			h.mu.Lock()
			h.cinfo = info
			h.cgot = true
			h.mu.Unlock()
		},
	})
	h.emit(fmt.Sprintf("(SetNow %d)", time.Now().Unix()), "now")
	return h, nil
}

func (h *hist) close() {
	for _, t := range h.txns {
		t.Discard()
	}
	badger.VerifSetController(nil)
	if h.db != nil {
		h.db.Close()
	}
	os.RemoveAll(h.dir)
}

func (h *hist) emit(term, desc string) {
	h.ops = append(h.ops, term)
	h.desc = append(h.desc, desc)
}

func (h *hist) term() string {
	return fmt.Sprintf("(Hist %s %s %d %d %d [\n  %s])", Bool(h.o.Managed), Bool(h.o.Detect), h.o.NKeep, h.o.MaxLevels, h.next0,
		strings.Join(h.ops, ";\n  "))
}

// ---- reference (the property): newest write <= ts; equal versions: the later call wins ----
func refLatest(ws []refWrite, k []byte, ts uint64) *refWrite {
	var best *refWrite
	for i := range ws {
		w := &ws[i]
		if !bytes.Equal(w.Key, k) || w.Ver > ts {
			continue
		}
		if best == nil || best.Ver <= w.Ver {
			best = w
		}
	}
	return best
}
func expired(meta byte, exp uint64, now uint64) bool {
	return meta&mDelete != 0 || (exp != 0 && exp <= now)
}

func (h *hist) begin(t int, upd bool, at uint64) {
	var tx *badger.Txn
	if h.o.Managed {
		tx = h.db.NewTransactionAt(at, upd)
	} else {
		tx = h.db.NewTransaction(upd)
	}
	h.txns[t] = tx
	h.tupd[t] = upd
	h.tpend[t] = nil
	h.emit(fmt.Sprintf("(Begin %d %s %d)", t, Bool(upd), tx.VerifReadTs()), fmt.Sprintf("begin t%d upd=%v rts=%d", t, upd, tx.VerifReadTs()))
}

func errCode(err error) int {
	switch {
	case err == nil:
		return 0
	case errors.Is(err, badger.ErrEmptyKey):
		return 1
	case errors.Is(err, badger.ErrDiscardedTxn):
		return 2
	case errors.Is(err, badger.ErrReadOnlyTxn):
		return 3
	case errors.Is(err, badger.ErrInvalidKey):
		return 4
	case errors.Is(err, badger.ErrConflict):
		return 1
	}
	return 99
}

func (h *hist) modify(t int, k, v []byte, meta, umeta byte, exp uint64) {
	tx := h.txns[t]
	var err error
	if meta&mDelete != 0 {
		err = tx.Delete(k)
		v, umeta, exp = nil, 0, 0
		meta = mDelete
	} else {
		e := badger.NewEntry(k, v).WithMeta(umeta)
		if meta&mDiscard != 0 {
			e = e.WithDiscard()
		}
		e.ExpiresAt = exp
		err = tx.SetEntry(e)
	}
	code := errCode(err)
	h.emit(fmt.Sprintf("(Modify %d %s %d)", t, entTerm(k, 0, meta, umeta, exp, v), code),
		fmt.Sprintf("t%d set %x=%x meta=%d umeta=%d exp=%d -> %d", t, k, v, meta, umeta, exp, code))
	if err == nil {
		h.tpend[t] = append(h.tpend[t], refWrite{Key: append([]byte{}, k...), Meta: meta, UMeta: umeta, Exp: exp, Val: append([]byte{}, v...)})
	}
}

type obsItem struct {
	Key   []byte
	Ver   uint64
	Meta  byte
	UMeta byte
	Exp   uint64
	Val   []byte
}

func readItem(it *badger.Item) (obsItem, error) {
	v, err := it.ValueCopy(nil)
	return obsItem{Key: it.KeyCopy(nil), Ver: it.Version(), Meta: badger.VerifItemMeta(it) & mMask, UMeta: it.UserMeta(), Exp: it.ExpiresAt(), Val: v}, err
}

// what txn t must see for key k according to the reference
func (h *hist) refVisible(t int, k []byte, now uint64) *refWrite {
	tx := h.txns[t]
	if h.tupd[t] {
		p := h.tpend[t]
		for i := len(p) - 1; i >= 0; i-- {
			if bytes.Equal(p[i].Key, k) {
				w := p[i]
				w.Ver = tx.VerifReadTs()
				if expired(w.Meta, w.Exp, now) {
					return nil
				}
				return &w
			}
		}
	}
	w := refLatest(h.ref, k, tx.VerifReadTs())
	if w == nil || expired(w.Meta, w.Exp, now) {
		return nil
	}
	return w
}

// versionDropped: some committed version of k is no longer stored anywhere (a compaction dropped
// it). Finding F10 needs that: without a dropped entry every version is still there to be found.
func (h *hist) versionDropped(k []byte) bool {
	have := map[uint64]bool{}
	for _, lv := range h.db.VerifDump() {
		for _, t := range lv {
			for _, e := range t.Entries {
				if bytes.Equal(e.Key, k) {
					have[e.Version] = true
				}
			}
		}
	}
	mt, imm := h.db.VerifMemEntries()
	for _, l := range append(imm, mt) {
		for _, e := range l {
			if bytes.Equal(e.Key, k) {
				have[e.Version] = true
			}
		}
	}
	for _, w := range h.ref {
		if bytes.Equal(w.Key, k) && !have[w.Ver] {
			return true
		}
	}
	return false
}

func (h *hist) sigFor(k []byte) string {
	// classify by root-cause pattern visible in the history (see known_findings.jsonl)
	seen := map[uint64]int{}
	for _, w := range h.ref {
		if bytes.Equal(w.Key, k) {
			seen[w.Ver]++
		}
	}
	for _, n := range seen {
		if n > 1 {
			if h.sawL0L0 && h.sameVerShape {
				// finding F8 shows as the OTHER copy of the same key@version being read
				return "F8-same-key-version-precedence-flips-after-l0-sort"
			}
			return "read-mismatch/same-key-version-written-twice"
		}
	}
	if h.sawSkip && h.resurrectShape {
		// finding F11 shows as a RESURRECTION only: the marker that hid an older version was
		// dropped for lack of overlap below while that older version sat in the skipped level
		return "F11-l0-to-base-skips-nonempty-level"
	}
	if h.o.Managed && h.nCompact > 0 {
		// managed mode: the key was written at a version below one it already had, and a
		// compaction ran (finding F10)
		var maxv uint64
		for _, w := range h.ref {
			if bytes.Equal(w.Key, k) {
				if w.Ver < maxv && h.versionDropped(k) {
					return "F10-managed-older-version-written-later-after-compaction"
				}
				if w.Ver > maxv {
					maxv = w.Ver
				}
			}
		}
	}
	return "read-mismatch"
}

func (h *hist) get(t int, k []byte) {
	tx := h.txns[t]
	item, err := tx.Get(k)
	now := uint64(time.Now().Unix())
	var term, d string
	var got *obsItem
	switch {
	case err == nil:
		oi, verr := readItem(item)
		if verr != nil {
			term = "(GErr 98)"
		} else {
			got = &oi
			term = "(GFound " + entTerm(oi.Key, oi.Ver, oi.Meta, oi.UMeta, oi.Exp, oi.Val) + ")"
		}
		d = fmt.Sprintf("found v=%d val=%x", oi.Ver, oi.Val)
	case errors.Is(err, badger.ErrKeyNotFound):
		term, d = "GNotFound", "notfound"
	default:
		term, d = fmt.Sprintf("(GErr %d)", errCode(err)), err.Error()
	}
	h.emit(fmt.Sprintf("(Get %d %s %s)", t, B(k), term), fmt.Sprintf("t%d get %x -> %s", t, k, d))
	if len(k) == 0 || (err != nil && !errors.Is(err, badger.ErrKeyNotFound)) {
		return
	}
	want := h.refVisible(t, k, now)
	ok := (want == nil && got == nil) || (want != nil && got != nil && got.Ver == want.Ver && bytes.Equal(got.Val, want.Val) && got.UMeta == want.UMeta && got.Exp == want.Exp)
	if !ok {
		h.failed = true
	}
	h.resurrectShape = want == nil && got != nil
	h.sameVerShape = want != nil && got != nil && got.Ver == want.Ver
	h.c.Oracle(ok, h.sigFor(k), "Get does not return the newest committed write at or below the read timestamp", J{"history": h.desc, "key": k})
	h.resurrectShape, h.sameVerShape = false, false
}

type itOpts struct {
	Reverse, All, PrefixIsKey, Internal, Prefetch bool
	Prefix                                        []byte
	Since                                         uint64
	PrefetchSize                                  int
}

var (
	seekClampOnce sync.Once
	seekClampIs   bool
)

// seekClampFixed reports whether Iterator.Seek clamps a forward seek key below the Prefix to the
// Prefix (the F33 repair), probed on the implementation under test.
func seekClampFixed() bool {
	seekClampOnce.Do(func() {
		db, err := openSysDB("", sysOpts{InMemory: true, NKeep: 1, MaxLevels: 4, TableSize: 1 << 20, BaseLevelSize: 8 << 10})
		if err != nil {
			return
		}
		defer db.Close()
		if err := db.Update(func(tx *badger.Txn) error {
			if err := tx.Set([]byte("a"), []byte("1")); err != nil {
				return err
			}
			return tx.Set([]byte("b"), []byte("2"))
		}); err != nil {
			return
		}
		db.View(func(tx *badger.Txn) error {
			it := tx.NewIterator(badger.IteratorOptions{Prefix: []byte("b")})
			defer it.Close()
			it.Seek([]byte("a"))
			seekClampIs = it.Valid() && string(it.Item().Key()) == "b"
			return nil
		})
	})
	return seekClampIs
}

func (h *hist) iterate(t int, o itOpts, seek []byte) {
	tx := h.txns[t]
	io := badger.IteratorOptions{Reverse: o.Reverse, AllVersions: o.All, Prefix: o.Prefix, SinceTs: o.Since,
		InternalAccess: o.Internal, PrefetchValues: o.Prefetch, PrefetchSize: o.PrefetchSize}
	var it *badger.Iterator
	if o.PrefixIsKey {
		io.Prefix = nil
		it = tx.NewKeyIterator(o.Prefix, io)
	} else {
		it = tx.NewIterator(io)
	}
	var items []obsItem
	bad := false
	if len(seek) == 0 {
		it.Rewind()
	} else {
		it.Seek(seek)
	}
	for ; it.Valid(); it.Next() {
		oi, err := readItem(it.Item())
		if err != nil {
			bad = true
		}
		items = append(items, oi)
		if len(items) > 10000 {
			break
		}
	}
	it.Close()
	now := uint64(time.Now().Unix())
	ts := make([]string, len(items))
	for i, x := range items {
		ts[i] = entTerm(x.Key, x.Ver, x.Meta, x.UMeta, x.Exp, x.Val)
	}
	all := o.All || o.PrefixIsKey
	// finding F33 (fixed): a forward Seek below the Prefix is clamped to the Prefix by the repaired
	// Iterator.Seek; the model's `iterate` is the pinned code, so it is handed the clamped key
	mseek := seek
	if !o.Reverse && len(seek) > 0 && bytes.Compare(seek, o.Prefix) < 0 && seekClampFixed() {
		mseek = o.Prefix
	}
	h.emit(fmt.Sprintf("(Iterate %d (mkIO %s %s %s %s %d %s) %s %s)", t, Bool(o.Reverse), Bool(all), B(o.Prefix), Bool(o.PrefixIsKey), o.Since, Bool(o.Internal), B(mseek), ListOf(ts)),
		fmt.Sprintf("t%d iterate rev=%v all=%v prefix=%x pik=%v since=%d seek=%x -> %d items", t, o.Reverse, all, o.Prefix, o.PrefixIsKey, o.Since, seek, len(items)))
	// oracle (non-AllVersions, user keys): exactly the visible keys in the range, in order
	if bad {
		h.c.Oracle(false, "iter-value-error", "iterator item value could not be read", J{"history": h.desc})
		return
	}
	for _, x := range items {
		if o.PrefixIsKey && !bytes.Equal(x.Key, o.Prefix) {
			h.c.Oracle(false, "iter-key-iterator-yields-other-key", "NewKeyIterator yielded a version of another key", J{"history": h.desc, "key": o.Prefix, "got": x.Key})
			return
		}
		if !bytes.HasPrefix(x.Key, o.Prefix) {
			h.c.Oracle(false, "iter-item-outside-prefix", "an iterator with Prefix yielded a key without that prefix", J{"history": h.desc, "prefix": o.Prefix, "got": x.Key})
			return
		}
	}
	if all || o.Internal {
		// every yielded version must be a written one with identical content; order newest first per key
		ok := true
		for _, x := range items {
			w := refLatestExact(h.allWritesFor(t), x.Key, x.Ver)
			if w == nil || !bytes.Equal(w.Val, x.Val) || w.UMeta != x.UMeta {
				if !bytes.HasPrefix(x.Key, []byte("!badger!")) {
					ok = false
				}
			}
		}
		h.c.Oracle(ok, "allversions-unknown-version", "AllVersions iteration yielded a version that was never written (or with other content)", J{"history": h.desc})
		return
	}
	keys := h.keyUniverse(t)
	var want []refWrite
	for _, k := range keys {
		if !bytes.HasPrefix(k, o.Prefix) {
			continue
		}
		if len(seek) > 0 {
			if !o.Reverse && bytes.Compare(k, seek) < 0 {
				continue
			}
			if o.Reverse && bytes.Compare(k, seek) > 0 {
				continue
			}
		} else if o.Reverse && len(o.Prefix) > 0 && bytes.Compare(k, o.Prefix) > 0 {
			continue // reverse Rewind with a prefix seeks to the prefix itself (documented behaviour)
		}
		w := h.refVisible(t, k, now)
		if w == nil || (o.Since > 0 && w.Ver <= o.Since) {
			if w != nil && o.Since > 0 {
				// SinceTs hides versions at or below it: an older visible version does not reappear
			}
			continue
		}
		want = append(want, *w)
	}
	if o.Reverse {
		for i, j := 0, len(want)-1; i < j; i, j = i+1, j-1 {
			want[i], want[j] = want[j], want[i]
		}
	}
	ok := len(want) == len(items)
	if ok {
		for i := range want {
			if !bytes.Equal(want[i].Key, items[i].Key) || want[i].Ver != items[i].Ver || !bytes.Equal(want[i].Val, items[i].Val) || want[i].UMeta != items[i].UMeta {
				ok = false
			}
		}
	}
	if !ok {
		h.failed = true
	}
	// a key the iterator yields although the reference hides it
	wantKeys := map[string]bool{}
	for _, w := range want {
		wantKeys[string(w.Key)] = true
	}
	for _, x := range items {
		if !wantKeys[string(x.Key)] {
			h.resurrectShape = true
		}
	}
	if len(want) == len(items) {
		same := true
		for i := range want {
			if !bytes.Equal(want[i].Key, items[i].Key) || want[i].Ver != items[i].Ver {
				same = false
			}
		}
		h.sameVerShape = same // same keys and versions, only contents differ
	}
	defer func() { h.resurrectShape, h.sameVerShape = false, false }()
	sig := "iter-mismatch"
	for _, x := range append(append([]obsItem{}, items...), wantItems(want)...) {
		if s := h.sigFor(x.Key); s != "read-mismatch" {
			sig = s
		}
	}
	if o.Since > 0 {
		// with SinceTs the reference above is exact only when the newest visible version is above it;
		// an item the reference hides must not be reported
		sig += "/since"
	}
	h.c.Oracle(ok, sig, "iterator does not yield exactly the visible keys once, in order", J{"history": h.desc, "want": len(want), "got": len(items)})
}

func wantItems(ws []refWrite) []obsItem {
	out := make([]obsItem, len(ws))
	for i, w := range ws {
		out[i] = obsItem{Key: w.Key}
	}
	return out
}

func refLatestExact(ws []refWrite, k []byte, ver uint64) *refWrite {
	var best *refWrite
	for i := range ws {
		if bytes.Equal(ws[i].Key, k) && ws[i].Ver == ver {
			best = &ws[i]
		}
	}
	return best
}

func (h *hist) allWritesFor(t int) []refWrite {
	out := append([]refWrite{}, h.ref...)
	if h.tupd[t] {
		for _, w := range h.tpend[t] {
			w.Ver = h.txns[t].VerifReadTs()
			out = append(out, w)
		}
	}
	return out
}

func (h *hist) keyUniverse(t int) [][]byte {
	m := map[string]bool{}
	for _, w := range h.ref {
		m[string(w.Key)] = true
	}
	for _, w := range h.tpend[t] {
		m[string(w.Key)] = true
	}
	var ks [][]byte
	for k := range m {
		ks = append(ks, []byte(k))
	}
	sort.Slice(ks, func(i, j int) bool { return bytes.Compare(ks[i], ks[j]) < 0 })
	return ks
}

func (h *hist) commit(t int, at uint64) {
	tx := h.txns[t]
	var err error
	if h.o.Managed {
		err = tx.CommitAt(at, nil)
	} else {
		err = tx.Commit()
	}
	code := errCode(err)
	cts := uint64(0)
	if err == nil && len(h.tpend[t]) > 0 {
		if h.o.Managed {
			cts = at
		} else {
			cts = h.db.VerifNextTs() - 1
		}
		// the specification's history: calls in order, at the commit timestamp
		for _, w := range h.tpend[t] {
			w.Ver = cts
			h.ref = append(h.ref, w)
		}
	}
	h.emit(fmt.Sprintf("(Commit %d %d %d)", t, cts, code), fmt.Sprintf("t%d commit -> %d ts=%d", t, code, cts))
	delete(h.txns, t)
	delete(h.tpend, t)
}

func (h *hist) discard(t int) {
	h.txns[t].Discard()
	h.emit(fmt.Sprintf("(Discard %d)", t), fmt.Sprintf("t%d discard", t))
	delete(h.txns, t)
	delete(h.tpend, t)
}

func tableIDs(d [][]badger.VerifTable) map[uint64]int {
	m := map[uint64]int{}
	for l, lv := range d {
		for _, t := range lv {
			m[t.ID] = l
		}
	}
	return m
}

func (h *hist) flush() error {
	before := tableIDs(h.db.VerifDump())
	if err := h.db.VerifFlushMemtable(); err != nil {
		return err
	}
	after := h.db.VerifDump()
	id := uint64(0)
	for _, t := range after[0] {
		if _, ok := before[t.ID]; !ok {
			id = t.ID
		}
	}
	h.nFlush++
	h.emit(fmt.Sprintf("(Flush %d)", id), fmt.Sprintf("flush -> table %d", id))
	return nil
}

func (h *hist) dump() {
	d := h.db.VerifDump()
	lv := make([]string, len(d))
	for i, l := range d {
		ts := make([]string, len(l))
		for j, t := range l {
			es := make([]string, len(t.Entries))
			for k, e := range t.Entries {
				es[k] = vEntTerm(e)
			}
			ts[j] = fmt.Sprintf("(%d, %s)", t.ID, ListOf(es))
		}
		lv[i] = ListOf(ts)
	}
	h.emit("(Dump "+ListOf(lv)+")", "dump")
}

// compact runs the production picker + compaction on `level`; returns false if nothing was picked
func (h *hist) compact(level int, l0l0 bool, drop [][]byte) (bool, error) {
	// the discard timestamp a compaction reads is the read watermark, which a goroutine advances
	// asynchronously: let it catch up with every transaction that has ended, so that all
	// sub-compactions read the same value
	h.db.VerifSettleWatermarks()
	h.mu.Lock()
	h.cgot = false
	h.cinfo = nil
	h.cdisc = 0
	h.mu.Unlock()
	if l0l0 {
		// a random subset of the tables is old enough for the L0->L0 picker (tables created
		// less than 10 s ago are left out by the production code)
		if h.backdate != nil {
			h.db.VerifBackdateTables(time.Hour, h.backdate)
		} else {
			salt := h.c.Rng.Uint64()
			all := h.c.Rng.Intn(3) == 0
			h.db.VerifBackdateTables(time.Hour, func(id uint64) bool { return all || (id*2654435761+salt)%5 != 0 })
		}
	}
	before := h.db.VerifDump()
	now := time.Now().Unix()
	err := h.db.VerifCompact(level, l0l0, drop)
	if err != nil {
		if badger.VerifIsFillTablesErr(err) {
			return false, nil
		}
		return false, err
	}
	h.mu.Lock()
	info, disc, got := h.cinfo, h.cdisc, h.cgot
	h.mu.Unlock()
	if !got {
		return false, errors.New("compaction ran but no hook event was seen")
	}
	after := h.db.VerifDump()
	byID := map[uint64]badger.VerifTable{}
	for _, lv := range after {
		for _, t := range lv {
			byID[t.ID] = t
		}
	}
	type nt struct {
		id uint64
		es []badger.VerifEntry
	}
	var nts []nt
	for _, id := range info.New {
		nts = append(nts, nt{id, byID[id].Entries})
	}
	sort.Slice(nts, func(i, j int) bool {
		a, b := nts[i].es[0], nts[j].es[0]
		if c := bytes.Compare(a.Key, b.Key); c != 0 {
			return c < 0
		}
		return a.Version > b.Version
	})
	var layout, out []string
	for _, t := range nts {
		layout = append(layout, fmt.Sprintf("(%d, %d)", t.id, len(t.es)))
		for _, e := range t.es {
			out = append(out, vEntTerm(e))
		}
	}
	var order []uint64
	for _, t := range after[info.NextLevel] {
		order = append(order, t.ID)
	}
	dp := make([]string, len(drop))
	for i, p := range drop {
		dp[i] = B(p)
	}
	h.nCompact++
	if info.ThisLevel == 0 && info.NextLevel == 0 {
		h.sawL0L0 = true
	}
	if info.ThisLevel == 0 && info.NextLevel > 1 {
		for l := 1; l < info.NextLevel; l++ {
			if len(before[l]) > 0 {
				h.sawSkip = true
			}
		}
	}
	h.c.Count(fmt.Sprintf("compact L%d->L%d base=%d", info.ThisLevel, info.NextLevel, h.db.VerifBaseLevel()))
	h.emit(fmt.Sprintf("(Compact (mkC %d %d %s %s %d %d %s %d %s %s) %s)", info.ThisLevel, info.NextLevel, idList(info.Top), idList(info.Bot),
		disc, h.o.NKeep, ListOf(dp), now, ListOf(layout), idList(order), ListOf(out)),
		fmt.Sprintf("compact L%d->L%d top=%v bot=%v discard=%d new=%v", info.ThisLevel, info.NextLevel, info.Top, info.Bot, disc, info.New))
	return true, nil
}

func (h *hist) setDiscard(ts uint64) {
	h.db.SetDiscardTs(ts)
	h.emit(fmt.Sprintf("(SetDiscard %d)", ts), fmt.Sprintf("setDiscardTs %d", ts))
}

func (h *hist) maxVersion() {
	h.emit(fmt.Sprintf("(MaxVersion %d)", h.db.MaxVersion()), "maxversion")
}

var _ = math.MaxInt32
