package main

// C09 (log part) — a torn tail of the newest WAL / value log is recovered, not surfaced.
// Function level: logFile.iterate on a well-formed log cut at every byte of its last unit,
// truncated or zero-filled, compared with the model (corr/CorrC09.v) and with the property
// oracle (delivered = exactly the complete units before the damage, no partial transaction,
// valid end = their end, no error).  End to end: a real DB whose newest .mem file is cut the
// same way is re-opened and its content compared with the transactions written before the cut.

import (
	"bytes"
	"fmt"
	"io"
	"os"
	"path/filepath"
	"sort"
	"strings"

	badger "github.com/dgraph-io/badger/v4"
)

func init() { register("C09", runC09) }

func tornOracle(c *Ctx, tag string, b *builtLog, out []badger.VerifLogEntry, vend uint32, cls int, fid uint32,
	damaged bool, lastStart uint32, replay interface{}) {
	n := len(b.Units)
	c.Oracle(cls == badger.VerifRdOk, "c09-iterate-error"+tag, "iterate on a torn tail returned an error / panicked (Open would fail)", replay)
	k, whole := wholeUnits(b, out, fid)
	if !whole {
		// which kind of failure: a strict subset of the last transaction, or altered content
		pre, _, _ := b.expect(n - 1)
		if len(out) > len(pre) && len(out) < len(pre)+len(b.Units[n-1].Recs) {
			c.Oracle(false, "c09-partial-txn-visible"+tag, "part of a transaction whose end marker was not intact was delivered", replay)
		} else {
			c.Oracle(false, "c09-torn-record-returned"+tag, "delivered entries are not the written ones", replay)
		}
		return
	}
	c.Oracle(true, "", "", nil)
	if damaged {
		c.Oracle(k <= n-1, "c09-torn-record-returned"+tag, "the damaged unit was delivered", replay)
		c.Oracle(k >= n-1, "c09-lost-complete-unit"+tag, "a complete unit before the damage was not delivered", replay)
		c.Oracle(vend == lastStart, "c09-valid-end"+tag, "valid end offset is not the end of the last complete unit", replay)
	} else {
		c.Oracle(k == n && vend == b.GoodEnd, "c09-lost-complete-unit"+tag, "undamaged log not fully delivered", replay)
	}
}

func runC09(c *Ctx) error {
	c.Setup("Uvarint Keys Codec Crc32c LogRecord LogIter CorrC16 CorrC09", "run_case")
	e2eDone := 0
	for i := 0; c.nCases < c.N; i++ {
		if i%2 == 1 && e2eDone < 8+c.N/150 {
			c09EndToEnd(c, i)
			e2eDone++
			continue
		}
		us := c.someUnits(c.Rng.Intn(3), false, 0)
		last := c.goodUnit()
		if i%2 == 0 { // make the last unit a transaction with several entries
			for len(last.Recs) < 3 {
				last = c.goodUnit()
			}
		}
		us = append(us, last)
		b := buildLog(c, us, lenc{})
		le := c.encSetup()
		be := buildLog(c, us, le)
		var lastStart uint32
		for ri := range b.Recs {
			if b.UnitOf[ri] == len(us)-1 {
				lastStart = b.RecOff[ri]
				break
			}
		}
		end := len(b.Data)
		sweep := i%4 == 0 && end-int(lastStart) <= 120 // every cut offset of a small last unit
		for cut := int(lastStart); cut < end && c.nCases < c.N; cut++ {
			if !sweep && c.Rng.Intn(end-int(lastStart)) >= 10 {
				continue
			}
			for kind := 1; kind <= 3 && c.nCases < c.N; kind++ {
				if kind == 3 && c.Rng.Intn(2) == 0 {
					continue
				}
				fill := 0
				switch kind {
				case 2:
					fill = 1 + c.Rng.Intn(40)
				case 3:
					fill = end - cut + c.Rng.Intn(30)
				}
				data := append(append([]byte{}, b.Data[:cut]...), make([]byte, fill)...)
				damaged := !bytes.HasPrefix(data, b.Data)
				offset := uint32(0)
				if c.Rng.Intn(4) == 0 {
					offset = 20
				}
				out, vend, cls := badger.VerifLogIterate(data, 3, offset, nil, nil)
				if cls == badger.VerifRdPanic {
					vend = 0
				}
				for j := range out { // CorrC16's case format carries no fid
					if out[j].VpFid != 3 {
						c.Oracle(false, "c09-vptr-fid", "value pointer fid is not the file's", J{"cut": cut})
					}
				}
				in := J{"data": data, "cut": cut, "kind": kind, "offset": offset}
				c.Case([]string{"", "TornTruncate", "TornZeroFill", "TornZeroFillFull"}[kind],
					fmt.Sprintf("(Torn %d %s %d %s %d %d)", kind, B(data), offset, delsTerm(out), cls, vend), in)
				tornOracle(c, "", &b, out, vend, cls, 3, damaged, lastStart, in)
				// the same cut on the encrypted image of the log (oracle only)
				de := append(append([]byte{}, be.Data[:cut]...), make([]byte, fill)...)
				oe, ve, ce := badger.VerifLogIterate(de, 3, offset, le.aesKey, le.baseIV)
				tornOracle(c, "-encrypted", &be, oe, ve, ce, 3, !bytes.HasPrefix(de, be.Data), lastStart, J{"cut": cut, "kind": kind, "units": len(us)})
			}
		}
	}
	c.Extra["end_to_end_runs"] = e2eDone
	return nil
}

// ---------------- end to end ----------------

func copyDir(src, dst string) error {
	if err := os.MkdirAll(dst, 0o755); err != nil {
		return err
	}
	ents, err := os.ReadDir(src)
	if err != nil {
		return err
	}
	for _, e := range ents {
		if e.IsDir() || e.Name() == "LOCK" {
			continue
		}
		in, err := os.Open(filepath.Join(src, e.Name()))
		if err != nil {
			return err
		}
		out, err := os.Create(filepath.Join(dst, e.Name()))
		if err != nil {
			in.Close()
			return err
		}
		_, err = io.Copy(out, in)
		in.Close()
		out.Close()
		if err != nil {
			return err
		}
	}
	return nil
}

func c09Opts(dir string) badger.Options {
	return badger.DefaultOptions(dir).WithSyncWrites(false).WithLogger(nil).WithMemTableSize(1 << 20).
		WithValueLogFileSize(1 << 20).WithNumCompactors(0).WithCompression(0).WithBlockCacheSize(0).WithIndexCacheSize(0).
		WithNumMemtables(2).WithMetricsEnabled(false).WithValueThreshold(1 << 10)
}

// c09EndToEnd: write transactions through a real DB, take a crash image of the directory (copy while
// open: the mmap'd WAL has its preallocated zero tail), cut the newest .mem at a byte inside the last
// records (truncate / zero-fill), re-open, compare the content with the transactions before the cut.
func c09EndToEnd(c *Ctx, round int) {
	base := os.Getenv("VERIF_SCRATCH_DIR")
	if base == "" {
		base = os.TempDir()
	}
	dir := filepath.Join(base, fmt.Sprintf("c09e2e_%d_%d", c.Seed, round))
	img := dir + "_img"
	defer os.RemoveAll(dir)
	defer os.RemoveAll(img)
	db, err := badger.Open(c09Opts(dir))
	if err != nil {
		c.Oracle(false, "c09-e2e-setup", "cannot open a fresh DB: "+err.Error(), nil)
		return
	}
	type txn struct{ kv map[string]string }
	var txns []txn
	nTx := 2 + c.Rng.Intn(4)
	for t := 0; t < nTx; t++ {
		tx := txn{kv: map[string]string{}}
		nk := 1 + c.Rng.Intn(3)
		err := db.Update(func(x *badger.Txn) error {
			for j := 0; j < nk; j++ {
				k := fmt.Sprintf("k%d", c.Rng.Intn(6))
				v := fmt.Sprintf("v%d-%d-%s", t, j, strings.Repeat("x", c.Rng.Intn(20)))
				tx.kv[k] = v
				if err := x.Set([]byte(k), []byte(v)); err != nil {
					return err
				}
			}
			return nil
		})
		if err != nil {
			c.Oracle(false, "c09-e2e-setup", "update failed: "+err.Error(), nil)
			db.Close()
			return
		}
		txns = append(txns, tx)
	}
	if err := copyDir(dir, img); err != nil {
		c.Oracle(false, "c09-e2e-setup", "copy failed: "+err.Error(), nil)
		db.Close()
		return
	}
	db.Close()
	// newest .mem of the image
	mems, _ := filepath.Glob(filepath.Join(img, "*.mem"))
	if len(mems) == 0 {
		c.Oracle(false, "c09-e2e-setup", "no .mem file in the crash image", nil)
		return
	}
	sort.Strings(mems)
	mem := mems[len(mems)-1]
	data, _ := os.ReadFile(mem)
	// structure of the WAL: offsets of every record, via the real iterate with the marker bytes recovered from vp lengths
	out, vend, cls := badger.VerifLogIterate(data, 0, 0, nil, nil)
	if cls != 0 || len(out) == 0 {
		c.Oracle(false, "c09-e2e-setup", "crash image WAL not iterable", nil)
		return
	}
	// transaction boundaries: groups by version (y.ParseTs of the key) in delivery order
	type grp struct {
		start, end uint32
	}
	var groups []grp
	for j, e := range out {
		ts := e.Key[len(e.Key)-8:]
		if j == 0 || !bytes.Equal(ts, out[j-1].Key[len(out[j-1].Key)-8:]) {
			if len(groups) > 0 {
				groups[len(groups)-1].end = e.VpOffset
			}
			groups = append(groups, grp{start: e.VpOffset})
		}
	}
	groups[len(groups)-1].end = vend
	if len(groups) != len(txns) {
		c.Oracle(false, "c09-e2e-setup", fmt.Sprintf("WAL has %d groups, %d transactions written", len(groups), len(txns)), nil)
		return
	}
	// cut somewhere inside the last one or two transactions
	lo := groups[len(groups)-1].start
	if len(groups) > 1 && c.Rng.Intn(3) == 0 {
		lo = groups[len(groups)-2].start
	}
	cut := int(lo) + c.Rng.Intn(int(vend-lo))
	zero := c.Rng.Intn(2) == 0
	orig := append([]byte{}, data...)
	if zero {
		for j := cut; j < int(vend); j++ {
			data[j] = 0
		}
	} else {
		data = data[:cut]
	}
	if err := os.WriteFile(mem, data, 0o644); err != nil {
		c.Oracle(false, "c09-e2e-setup", "cannot write the cut WAL", nil)
		return
	}
	// expected content: all transactions whose group ends at or before the cut
	want := map[string]string{}
	intact := 0
	for t, g := range groups {
		if intact == t && len(data) >= int(g.end) && bytes.Equal(data[g.start:g.end], orig[g.start:g.end]) {
			for k, v := range txns[t].kv {
				want[k] = v
			}
			intact = t + 1
		}
	}
	replay := J{"round": round, "cut": cut, "zero": zero, "txns": len(txns), "intact": intact}
	db2, err := badger.Open(c09Opts(img))
	c.Count("EndToEnd")
	if err != nil {
		c.Oracle(false, "c09-open-fails", "Open fails on a WAL with a torn tail: "+err.Error(), replay)
		return
	}
	defer db2.Close()
	got := map[string]string{}
	db2.View(func(x *badger.Txn) error {
		it := x.NewIterator(badger.DefaultIteratorOptions)
		defer it.Close()
		for it.Rewind(); it.Valid(); it.Next() {
			v, _ := it.Item().ValueCopy(nil)
			got[string(it.Item().Key())] = string(v)
		}
		return nil
	})
	same := len(got) == len(want)
	for k, v := range want {
		if got[k] != v {
			same = false
		}
	}
	if !same {
		// classify: does the content contain some but not all writes of a damaged transaction?
		partial := false
		for t := intact; t < len(txns); t++ {
			seen, all := 0, len(txns[t].kv)
			for k, v := range txns[t].kv {
				if got[k] == v {
					seen++
				}
			}
			if seen > 0 && seen < all {
				partial = true
			}
		}
		if partial {
			c.Oracle(false, "c09-partial-txn-visible", "after re-open part of a transaction with a torn end marker is visible", replay)
		} else {
			c.Oracle(false, "c09-recovered-content", fmt.Sprintf("after re-open content %v, expected %v", got, want), replay)
		}
		return
	}
	c.Oracle(true, "", "", nil)
}
