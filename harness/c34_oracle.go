package main

// C34, second part: controlled schedules on the real oracle (OrcSeq cases) and the
// commit-then-read visibility stress through the public DB API.

import (
	"context"
	"encoding/binary"
	"fmt"
	"sync"
	"sync/atomic"
	"time"

	badger "github.com/dgraph-io/badger/v4"
)

type orcOp struct {
	K string `json:"k"` // R C A D
	T int    `json:"t"`
}

func (o orcOp) coq() string {
	switch o.K {
	case "R":
		return "OR"
	case "C":
		return fmt.Sprintf("OC %d", o.T)
	case "A":
		return fmt.Sprintf("OA %d", o.T)
	case "D":
		return fmt.Sprintf("OD %d", o.T)
	}
	panic("bad orc op")
}

type orcTxn struct {
	rts      uint64
	done     chan struct{} // readTs returned
	returned bool
	txn      *badger.VerifOrcTxn
	cts      uint64
	phase    int // 0 waiting, 2 running, 3 committing, 4 acked
	doneRead bool
}

// runOrcSeq generates and runs one schedule on a fresh oracle; the next call is chosen from the
// calls that are possible in the implementation's current state.
func runOrcSeq(c *Ctx) {
	r := c.Rng
	n0 := []uint64{0, 0, 1, 5, 1000, 1 << 40}[r.Intn(6)]
	o := badger.VerifNewOracle(n0, r.Intn(2) == 0)
	ctx, cancel := context.WithCancel(context.Background())
	var txns []*orcTxn
	var ops []orcOp
	var obs []string
	barrier := func() {
		o.TxnMark().VerifBarrier()
		o.ReadMark().VerifBarrier()
	}
	barrier()
	n := 4 + r.Intn(36)
	okVisible, okStranded, okReadMark := true, true, true
	for k := 0; k < n; k++ {
		var running, committing, undone []int
		for i, t := range txns {
			switch t.phase {
			case 2:
				running = append(running, i)
			case 3:
				committing = append(committing, i)
			}
			if t.phase >= 2 && !t.doneRead {
				undone = append(undone, i)
			}
		}
		var op orcOp
		x := r.Intn(10)
		switch {
		case x < 3 || len(txns) == 0:
			op = orcOp{K: "R"}
		case x < 6 && len(running) > 0:
			op = orcOp{K: "C", T: running[r.Intn(len(running))]}
		case x < 9 && len(committing) > 0:
			j := r.Intn(len(committing))
			if r.Intn(3) == 0 {
				j = len(committing) - 1 // newest first: leaves a gap below
			}
			op = orcOp{K: "A", T: committing[j]}
		case len(undone) > 0 && r.Intn(4) > 0:
			op = orcOp{K: "D", T: undone[r.Intn(len(undone))]}
		case len(running) > 0:
			op = orcOp{K: "D", T: running[r.Intn(len(running))]} // second Discard: no-op
		default:
			op = orcOp{K: "R"}
		}
		var cts uint64
		switch op.K {
		case "R":
			t := &orcTxn{done: make(chan struct{})}
			if o.TxnMark().DoneUntil() >= o.NextTs()-1 {
				t.rts = o.ReadTs() // the real readTs; returns without blocking
				close(t.done)
				c.Count("orc-readts-real")
			} else {
				t.rts = o.ReadTsLocked()
				rc := &wmReachCtx{Context: ctx, reached: make(chan struct{})}
				go func() {
					if err := o.TxnMark().WaitForMark(rc, t.rts); err == nil {
						close(t.done)
					}
				}()
				select {
				case <-rc.reached:
				case <-t.done:
				}
				c.Count("orc-readts-blocking")
			}
			t.txn = o.NewTxn(t.rts)
			txns = append(txns, t)
		case "C":
			t := txns[op.T]
			ts, conflict := o.NewCommitTs(t.txn)
			if conflict {
				panic("unexpected conflict")
			}
			t.cts, t.phase, t.doneRead = ts, 3, true
			cts = ts
		case "A":
			t := txns[op.T]
			o.DoneCommit(t.cts)
			t.phase = 4
		case "D":
			t := txns[op.T]
			o.DoneRead(t.txn)
			t.doneRead = true
		}
		ops = append(ops, op)
		barrier()
		duT, duR := o.TxnMark().DoneUntil(), o.ReadMark().DoneUntil()
		ret := []string{}
		for i, t := range txns {
			if !t.returned {
				if duT >= t.rts {
					select {
					case <-t.done:
						t.returned = true
					case <-time.After(2 * time.Second):
					}
				} else {
					select {
					case <-t.done:
						t.returned = true
					default:
					}
				}
				if t.returned {
					t.phase = 2
					// property: nothing at or below its read timestamp is still being applied
					for _, u := range txns {
						if u.phase == 3 && u.cts <= t.rts {
							okVisible = false
						}
					}
				} else {
					blocked := false
					for _, u := range txns {
						if u.phase == 3 && u.cts <= t.rts {
							blocked = true
						}
					}
					if !blocked {
						okStranded = false
					}
				}
			}
			if t.returned {
				ret = append(ret, fmt.Sprintf("(%d, %d)", i, t.rts))
			}
			if !t.doneRead && duR > t.rts {
				okReadMark = false
			}
		}
		obs = append(obs, fmt.Sprintf("(%d, %d, %d, %s, %d)", o.NextTs(), duT, duR, ListOf(ret), cts))
	}
	cancel()
	o.Stop()
	ot := make([]string, len(ops))
	for i, op := range ops {
		ot[i] = op.coq()
	}
	c.Case("OrcSeq", fmt.Sprintf("(OrcSeq %d %s %s)", n0, ListOf(ot), ListOf(obs)), c34J{"n0": n0, "ops": ops})
	c.Oracle(okVisible, "orc-unfinished-visible", "readTs returned while a commit at or below it had not called doneCommit", c34J{"n0": n0, "ops": ops})
	c.Oracle(okStranded, "orc-reader-stranded", "readTs still blocked at quiescence although every commit at or below it is finished", c34J{"n0": n0, "ops": ops})
	c.Oracle(okReadMark, "orc-readmark-passes-open-reader", "readMark.DoneUntil is above the read timestamp of a transaction that has not called doneRead", c34J{"n0": n0, "ops": ops})
}

// c34DBStress: through the public API. A transaction started after Commit returned must see
// the committed value (own writes, and values other goroutines have announced as committed).
func c34DBStress(c *Ctx) error {
	opt := badger.DefaultOptions("").WithInMemory(true).WithLoggingLevel(badger.ERROR)
	db, err := badger.Open(opt)
	if err != nil {
		return err
	}
	defer db.Close()
	const G = 8
	per := 150 + c.N/4
	if per > 4000 {
		per = 4000
	}
	var published [G]atomic.Uint64
	var stale, conflicts atomic.Int64
	var staleInfo atomic.Value
	key := func(g int) []byte { return []byte(fmt.Sprintf("c34-key-%d", g)) }
	read := func(g int) (uint64, error) {
		var v uint64
		err := db.View(func(txn *badger.Txn) error {
			it, err := txn.Get(key(g))
			if err == badger.ErrKeyNotFound {
				return nil
			}
			if err != nil {
				return err
			}
			return it.Value(func(b []byte) error { v = binary.BigEndian.Uint64(b); return nil })
		})
		return v, err
	}
	var wg sync.WaitGroup
	errCh := make(chan error, G)
	for g := 0; g < G; g++ {
		wg.Add(1)
		go func(g int) {
			defer wg.Done()
			for k := uint64(1); k <= uint64(per); k++ {
				var buf [8]byte
				binary.BigEndian.PutUint64(buf[:], k)
				err := db.Update(func(txn *badger.Txn) error { return txn.Set(key(g), buf[:]) })
				if err == badger.ErrConflict {
					conflicts.Add(1)
					k--
					continue
				}
				if err != nil {
					errCh <- err
					return
				}
				published[g].Store(k)
				// own write
				if v, err := read(g); err != nil {
					errCh <- err
					return
				} else if v < k {
					stale.Add(1)
					staleInfo.Store(fmt.Sprintf("own g=%d k=%d read=%d", g, k, v))
				}
				// somebody else's announced commit
				h := (g + 1 + int(k)%(G-1)) % G
				p := published[h].Load()
				if v, err := read(h); err != nil {
					errCh <- err
					return
				} else if v < p {
					stale.Add(1)
					staleInfo.Store(fmt.Sprintf("other h=%d published=%d read=%d", h, p, v))
				}
			}
		}(g)
	}
	wg.Wait()
	select {
	case err := <-errCh:
		return err
	default:
	}
	info, _ := staleInfo.Load().(string)
	c.Oracle(stale.Load() == 0, "db-commit-not-visible", "a transaction started after Commit returned did not see the committed write", c34J{"n": stale.Load(), "last": info})
	c.Extra["db_stress_commits"] = G * per
	c.Extra["db_stress_reads"] = 2 * G * per
	return nil
}
