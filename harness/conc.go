package main

// C02 / C03: (a) deterministic API-granularity schedules of 2-5 interleaved transactions on a real
// DB, replayed by the Coq model extended with the commits refused after timestamp allocation
// (coq/B/SysRejected.v, coq/corr/CorrConc.v), with an independent Go oracle (conflict iff real
// overlap, serial re-execution in commit-timestamp order); (b) real concurrency stress (goroutines,
// real scheduler) with property oracles only.

import (
	"bytes"
	"errors"
	"fmt"
	"math/rand"
	"os"
	"path/filepath"
	"runtime"
	"sort"
	"strings"
	"sync"
	"sync/atomic"
	"time"

	badger "github.com/dgraph-io/badger/v4"
)

const sigF12 = "F12-rejected-commit-stays-in-conflict-log"

// ---------------------------------------------------------------------------------------------
// (a) schedules

type cread struct {
	Key   []byte
	Found bool
	Ver   uint64
	Val   []byte
	Kind  string // get | item | seek
	Check bool   // compare against the serial re-execution (reads served by the DB, not by own pending writes)
}

type ctxn struct {
	id      int
	rts     uint64
	upd     bool
	reads   []cread
	writes  map[string][]byte // nil value = delete
	worder  []string
	cts     uint64
	outcome string // "", committed, conflict, rejected, discarded
}

func (t *ctxn) readKeys() map[string]bool {
	m := map[string]bool{}
	for _, r := range t.reads {
		m[string(r.Key)] = true
	}
	return m
}

type xhist struct {
	*hist
	tx        map[int]*ctxn
	log       []*ctxn // every commit that was handed a timestamp, in order (committed or rejected)
	blocked   bool
	nSpurious int
	cleanups  int // conflict-log cleanups observed while some transaction was open
	lastClean uint64
	nonMono   bool // managed mode with commit timestamps issued in arbitrary order: serial order by timestamp is not promised
}

func newXHist(c *Ctx, o sysOpts) (*xhist, error) {
	h, err := newHist(c, o)
	if err != nil {
		return nil, err
	}
	return &xhist{hist: h, tx: map[int]*ctxn{}}, nil
}

func (x *xhist) xterm() string {
	ops := make([]string, len(x.ops))
	for i, o := range x.ops {
		if strings.HasPrefix(o, "(X") {
			ops[i] = o
		} else {
			ops[i] = "(Base " + o + ")"
		}
	}
	lg := make([]string, len(x.log))
	for i, t := range x.log {
		lg[i] = fmt.Sprintf("(%d, %d, %s)", t.rts, t.cts, Bool(t.outcome == "committed"))
	}
	return fmt.Sprintf("(XHist %s %s %d %d %d [\n  %s] %s)", Bool(x.o.Managed), Bool(x.o.Detect), x.o.NKeep, x.o.MaxLevels, x.next0,
		strings.Join(ops, ";\n  "), ListOf(lg))
}

func (x *xhist) xbegin(t int, upd bool, at uint64) {
	x.begin(t, upd, at)
	x.tx[t] = &ctxn{id: t, rts: x.txns[t].VerifReadTs(), upd: upd, writes: map[string][]byte{}}
	x.noteCleanup()
}

func (x *xhist) noteCleanup() {
	_, lc := x.db.VerifConflictLog()
	if lc != x.lastClean {
		x.lastClean = lc
		if len(x.txns) > 0 {
			x.cleanups++
		}
	}
}

func (x *xhist) xset(t int, k, v []byte) {
	n := len(x.tpend[t])
	if v == nil {
		x.modify(t, k, nil, mDelete, 0, 0)
	} else {
		x.modify(t, k, v, 0, 0, 0)
	}
	if len(x.tpend[t]) > n {
		ct := x.tx[t]
		if _, ok := ct.writes[string(k)]; !ok {
			ct.worder = append(ct.worder, string(k))
		}
		if v == nil {
			ct.writes[string(k)] = nil
		} else {
			ct.writes[string(k)] = append([]byte{}, v...)
		}
	}
}

// xget = hist.get, keeping the observation for the serializability oracle
func (x *xhist) xget(t int, k []byte) (bool, []byte) {
	tx := x.txns[t]
	ct := x.tx[t]
	item, err := tx.Get(k)
	now := uint64(time.Now().Unix())
	var term, d string
	var got *obsItem
	switch {
	case err == nil:
		oi, verr := readItem(item)
		if verr != nil {
			term = "(GErr 98)"
		} else {
			got = &oi
			term = "(GFound " + entTerm(oi.Key, oi.Ver, oi.Meta, oi.UMeta, oi.Exp, oi.Val) + ")"
		}
		d = fmt.Sprintf("found v=%d val=%x", oi.Ver, oi.Val)
	case errors.Is(err, badger.ErrKeyNotFound):
		term, d = "GNotFound", "notfound"
	default:
		term, d = fmt.Sprintf("(GErr %d)", errCode(err)), err.Error()
	}
	x.emit(fmt.Sprintf("(Get %d %s %s)", t, B(k), term), fmt.Sprintf("t%d get %x -> %s", t, k, d))
	if len(k) == 0 || (err != nil && !errors.Is(err, badger.ErrKeyNotFound)) {
		return false, nil
	}
	want := x.refVisible(t, k, now)
	ok := (want == nil && got == nil) || (want != nil && got != nil && got.Ver == want.Ver && bytes.Equal(got.Val, want.Val))
	x.c.Oracle(ok, x.sigFor(k), "Get does not return the newest committed write at or below the read timestamp", J{"history": x.desc, "key": k})
	if ct.upd {
		if _, own := ct.writes[string(k)]; !own {
			r := cread{Key: append([]byte{}, k...), Kind: "get", Check: true}
			if got != nil {
				r.Found, r.Ver, r.Val = true, got.Ver, got.Val
			}
			ct.reads = append(ct.reads, r)
		}
	}
	if got != nil {
		return true, got.Val
	}
	return false, nil
}

// xiter: forward / reverse iteration (optionally with a prefix and a Seek key), every yielded
// item and the Seek key are recorded reads
func (x *xhist) xiter(t int, reverse bool, prefix, seek []byte) {
	tx := x.txns[t]
	ct := x.tx[t]
	it := tx.NewIterator(badger.IteratorOptions{Reverse: reverse, Prefix: prefix, PrefetchValues: x.c.Rng.Intn(2) == 0, PrefetchSize: 2})
	var items []obsItem
	if len(seek) == 0 {
		it.Rewind()
	} else {
		it.Seek(seek)
	}
	for ; it.Valid(); it.Next() {
		oi, _ := readItem(it.Item())
		items = append(items, oi)
		if len(items) > 1000 {
			break
		}
	}
	it.Close()
	ts := make([]string, len(items))
	for i, y := range items {
		ts[i] = entTerm(y.Key, y.Ver, y.Meta, y.UMeta, y.Exp, y.Val)
	}
	x.emit(fmt.Sprintf("(Iterate %d (mkIO %s false %s false 0 false) %s %s)", t, Bool(reverse), B(prefix), B(seek), ListOf(ts)),
		fmt.Sprintf("t%d iterate rev=%v prefix=%x seek=%x -> %d items", t, reverse, prefix, seek, len(items)))
	if !ct.upd {
		return
	}
	if len(seek) > 0 {
		ct.reads = append(ct.reads, cread{Key: append([]byte{}, seek...), Kind: "seek"})
	}
	for _, y := range items {
		_, own := ct.writes[string(y.Key)]
		ct.reads = append(ct.reads, cread{Key: y.Key, Found: true, Ver: y.Ver, Val: y.Val, Kind: "item", Check: !own})
	}
}

func (x *xhist) xblock(on bool) {
	badger.VerifBlockWrites(x.db, on)
	x.blocked = on
	x.emit(fmt.Sprintf("(XBlock %s)", Bool(on)), fmt.Sprintf("blockWrites=%v", on))
}

func overlaps(keys map[string]bool, t *ctxn) bool {
	for k := range t.writes {
		if keys[k] {
			return true
		}
	}
	return false
}

// xcommit: Commit / CommitAt, the label, and the conflict oracle
func (x *xhist) xcommit(t int, at uint64) int {
	tx := x.txns[t]
	ct := x.tx[t]
	var err error
	if x.o.Managed {
		err = tx.CommitAt(at, nil)
	} else {
		err = tx.Commit()
	}
	code := 99
	switch {
	case err == nil:
		code = 0
	case errors.Is(err, badger.ErrConflict):
		code = 1
	case errors.Is(err, badger.ErrBlockedWrites):
		code = 7
	case errors.Is(err, badger.ErrTxnTooBig):
		code = 8
	}
	cts := uint64(0)
	hasW := len(x.tpend[t]) > 0
	if hasW && (code == 0 || code == 7 || code == 8) {
		if x.o.Managed {
			cts = at
		} else {
			cts = x.db.VerifNextTs() - 1
		}
	}
	if code == 0 && hasW {
		for _, w := range x.tpend[t] {
			w.Ver = cts
			x.ref = append(x.ref, w)
		}
	}
	switch code {
	case 8:
		x.emit(fmt.Sprintf("(XTooBig %d %d)", t, at), fmt.Sprintf("t%d commit -> ErrTxnTooBig ts=%d", t, cts))
	default:
		lcts := cts
		if code != 0 {
			lcts = at
		}
		x.emit(fmt.Sprintf("(Commit %d %d %d)", t, lcts, code), fmt.Sprintf("t%d commit -> %d ts=%d", t, code, cts))
	}
	// ---- oracle: conflict iff a successful commit above the read timestamp wrote a recorded read ----
	if x.o.Detect && hasW && (code == 0 || code == 1 || code == 7 || code == 8) {
		rk := ct.readKeys()
		real, ghost, cyc := false, false, false
		for _, c := range x.log {
			if c.cts > ct.rts && overlaps(rk, c) {
				if c.outcome == "committed" {
					real = true
					if overlaps(c.readKeys(), ct) {
						cyc = true
					}
				} else {
					ghost = true
				}
			}
		}
		rep := J{"history": x.desc, "txn": t, "rts": ct.rts}
		if code == 1 {
			sig := "c02-false-conflict"
			if !real && ghost {
				sig = sigF12
				x.nSpurious++
			}
			x.c.Oracle(real, sig, "Commit returned ErrConflict although no transaction that committed after the read timestamp wrote a key this transaction read", rep)
		} else {
			sig := "c02-not-serializable"
			if cyc {
				sig = "c02-write-skew-committed"
			}
			x.c.Oracle(!real, sig, "Commit was not rejected although a transaction that committed after the read timestamp wrote a key this transaction read", rep)
		}
	}
	switch {
	case code == 0 && hasW:
		ct.outcome, ct.cts = "committed", cts
		x.log = append(x.log, ct)
	case (code == 7 || code == 8) && hasW:
		ct.outcome, ct.cts = "rejected", cts
		x.log = append(x.log, ct)
	case code == 1:
		ct.outcome = "conflict"
	default:
		ct.outcome = "discarded"
	}
	delete(x.txns, t)
	delete(x.tpend, t)
	x.noteCleanup()
	return code
}

func (x *xhist) xdiscard(t int) {
	x.discard(t)
	x.tx[t].outcome = "discarded"
	x.noteCleanup()
}

// serialCheck: re-execute the committed transactions one after the other in commit order and
// compare every recorded read that was served by the DB
func (x *xhist) serialCheck() {
	type sv struct {
		ver uint64
		val []byte
		del bool
	}
	state := map[string]sv{}
	var comm []*ctxn
	for _, c := range x.log {
		if c.outcome == "committed" {
			comm = append(comm, c)
		}
	}
	sort.SliceStable(comm, func(i, j int) bool { return comm[i].cts < comm[j].cts })
	for _, c := range comm {
		ok := true
		var bad cread
		for _, r := range c.reads {
			// with commit timestamps issued out of order a later-issued commit may carry a timestamp
			// between this transaction's read and commit timestamps (caller contract broken): only the
			// conflict oracle at Commit and the final state are checked then
			if !r.Check || x.nonMono {
				continue
			}
			s, has := state[string(r.Key)]
			vis := has && !s.del
			if vis != r.Found || (vis && (s.ver != r.Ver || !bytes.Equal(s.val, r.Val))) {
				ok, bad = false, r
			}
		}
		x.c.Oracle(ok, "c02-not-serializable", "a read of a committed transaction differs from the serial execution in commit-timestamp order",
			J{"history": x.desc, "txn": c.id, "key": bad.Key, "kind": bad.Kind})
		for _, k := range c.worder {
			v := c.writes[k]
			state[k] = sv{ver: c.cts, val: v, del: v == nil}
		}
	}
	// the final state of the DB is the serial one
	ok := true
	at := uint64(0)
	if x.o.Managed {
		at = ^uint64(0)
	}
	var tx *badger.Txn
	if x.o.Managed {
		tx = x.db.NewTransactionAt(at, false)
	} else {
		tx = x.db.NewTransaction(false)
	}
	for k, s := range state {
		item, err := tx.Get([]byte(k))
		if s.del {
			ok = ok && errors.Is(err, badger.ErrKeyNotFound)
			continue
		}
		if err != nil {
			ok = false
			continue
		}
		v, _ := item.ValueCopy(nil)
		ok = ok && item.Version() == s.ver && bytes.Equal(v, s.val)
	}
	tx.Discard()
	x.c.Oracle(ok, "c02-not-serializable", "the final state differs from the serial execution of the committed transactions", J{"history": x.desc})
	// rejected commits left nothing readable: no version of a key it tried to write carries its timestamp
	for _, c := range x.log {
		if c.outcome != "rejected" {
			continue
		}
		okr := true
		var rt *badger.Txn
		if x.o.Managed {
			rt = x.db.NewTransactionAt(^uint64(0), false)
		} else {
			rt = x.db.NewTransaction(false)
		}
		for k := range c.writes {
			it := rt.NewKeyIterator([]byte(k), badger.IteratorOptions{AllVersions: true})
			for it.Rewind(); it.Valid(); it.Next() {
				if it.Item().Version() == c.cts {
					okr = false
				}
			}
			it.Close()
		}
		rt.Discard()
		x.c.Oracle(okr, "c03-rejected-commit-visible", "a commit that returned an error left a visible write", J{"history": x.desc, "txn": c.id})
	}
}

// ---- schedule generation ----

type schedCfg struct {
	name    string
	managed bool
	nonMono bool // managed: commit timestamps in arbitrary order (distinct, above the discard timestamp)
	keys    [][]byte
	nTxn    int
	nSteps  int
	wBlock  int // per-mille probability of a blocked-writes window around a commit
	long    bool
	iter    bool
	multi   bool // multi-key commits + readers after each commit (C03 flavour)
}

var concKeys = [][]byte{[]byte("a"), []byte("b"), []byte("c"), []byte("ab"), []byte("b\x00"), []byte("d"), []byte("e"), []byte("zz")}

func (c *Ctx) concVal() []byte {
	n := 1 + c.Rng.Intn(5)
	v := make([]byte, n)
	for i := range v {
		v[i] = byte('0' + c.Rng.Intn(10))
	}
	return v
}

func concOpts(c *Ctx, managed bool) sysOpts {
	o := sysOpts{Managed: managed, Detect: true, NKeep: 1 + c.Rng.Intn(3), MaxLevels: 4, VThreshold: 32, TableSize: 1 << 20, BaseLevelSize: 8 << 10}
	return o
}

// runSchedule: a generated interleaving; returns the closed history
func runSchedule(c *Ctx, g schedCfg) (*xhist, error) {
	x, err := newXHist(c, concOpts(c, g.managed))
	if err != nil {
		return nil, err
	}
	defer x.close()
	x.nonMono = g.nonMono
	rng := c.Rng
	var mts uint64 = 1 // managed: highest commit ts used
	used := map[uint64]bool{}
	var discardTs uint64
	nextT := 0
	pickKey := func() []byte { return g.keys[rng.Intn(len(g.keys))] }
	begin := func(upd bool) int {
		at := uint64(0)
		if g.managed {
			at = mts
			if rng.Intn(3) == 0 && mts > discardTs {
				at = discardTs + uint64(rng.Intn(int(mts-discardTs)+1))
			}
		}
		x.xbegin(nextT, upd, at)
		nextT++
		return nextT - 1
	}
	commit := func(t int) int {
		at := uint64(0)
		if g.managed && g.nonMono {
			// any unused timestamp above the discard timestamp, also below earlier commits
			for {
				at = discardTs + 1 + uint64(rng.Intn(int(mts-discardTs)+4))
				if !used[at] {
					break
				}
			}
			used[at] = true
			if at > mts {
				mts = at
			}
		} else if g.managed {
			mts += uint64(1 + rng.Intn(2))
			at = mts
		}
		blk := g.wBlock > 0 && rng.Intn(1000) < g.wBlock
		if blk {
			x.xblock(true)
		}
		code := x.xcommit(t, at)
		if blk {
			x.xblock(false)
		}
		return code
	}
	open := func() []int {
		var ids []int
		for id := range x.txns {
			ids = append(ids, id)
		}
		sort.Ints(ids)
		return ids
	}
	// seed data so that reads find something
	t0 := begin(true)
	for _, k := range g.keys[:1+rng.Intn(len(g.keys))] {
		x.xset(t0, k, c.concVal())
	}
	commit(t0)
	var longT = -1
	if g.long {
		longT = begin(true)
		x.xget(longT, pickKey())
		if g.iter && rng.Intn(2) == 0 {
			x.xiter(longT, false, nil, nil)
		}
	}
	for step := 0; step < g.nSteps; step++ {
		ids := open()
		var act []int
		for _, id := range ids {
			if id != longT {
				act = append(act, id)
			}
		}
		if len(act) < g.nTxn && (len(act) == 0 || rng.Intn(4) == 0) {
			begin(rng.Intn(6) != 0)
			continue
		}
		t := act[rng.Intn(len(act))]
		upd := x.tx[t].upd
		r := rng.Intn(100)
		switch {
		case r < 30:
			x.xget(t, pickKey())
		case r < 40 && g.iter:
			var prefix, seek []byte
			if rng.Intn(3) == 0 {
				prefix = pickKey()[:1]
			}
			if rng.Intn(2) == 0 {
				seek = pickKey()
				if len(prefix) > 0 {
					seek = append(append([]byte{}, prefix...), seek...)
				}
				if rng.Intn(3) == 0 {
					seek = append(append([]byte{}, seek...), 'x') // usually absent
				}
			}
			x.xiter(t, rng.Intn(4) == 0, prefix, seek)
		case r < 70 && upd:
			k := pickKey()
			if g.multi && rng.Intn(2) == 0 {
				v := c.concVal()
				for _, k2 := range g.keys[:2+rng.Intn(len(g.keys)-1)] {
					x.xset(t, k2, v)
				}
			} else if rng.Intn(6) == 0 {
				x.xset(t, k, nil)
			} else {
				x.xset(t, k, c.concVal())
			}
		case r < 92:
			commit(t)
			if g.multi && rng.Intn(2) == 0 {
				// a reader started after Commit returned
				rt := begin(false)
				for _, k := range g.keys {
					x.xget(rt, k)
				}
				x.xdiscard(rt)
			}
		case r < 96:
			x.xdiscard(t)
		default:
			if g.managed {
				lim := mts
				for _, id := range open() {
					if rt := x.txns[id].VerifReadTs(); rt < lim {
						lim = rt
					}
				}
				if lim > discardTs {
					discardTs += uint64(rng.Intn(int(lim-discardTs) + 1))
					x.setDiscard(discardTs)
				}
			} else if rng.Intn(2) == 0 && !x.o.InMemory {
				x.flush()
			}
		}
	}
	if longT >= 0 {
		// the long-running transaction finally writes and commits (conflict iff one of its reads was overwritten)
		if _, still := x.txns[longT]; still {
			x.xset(longT, []byte("long"), c.concVal())
			commit(longT)
		}
	}
	for _, id := range open() {
		if rng.Intn(2) == 0 && x.tx[id].upd {
			x.xset(id, pickKey(), c.concVal())
			commit(id)
		} else {
			x.xdiscard(id)
		}
	}
	x.serialCheck()
	return x, nil
}

// ---- directed schedules (each named pattern in both commit orders) ----

func directed(c *Ctx, kind int, managed bool) (*xhist, error) {
	x, err := newXHist(c, concOpts(c, managed))
	if err != nil {
		return nil, err
	}
	defer x.close()
	a, b := []byte("a"), []byte("b")
	var ts uint64 = 1
	at := func() uint64 {
		if !managed {
			return 0
		}
		ts++
		return ts
	}
	rd := func() uint64 {
		if !managed {
			return 0
		}
		return ts
	}
	x.xbegin(0, true, rd())
	x.xset(0, a, []byte("1"))
	x.xset(0, b, []byte("1"))
	x.xcommit(0, at())
	switch kind {
	case 0: // read-then-write the same key, another commit in between
		x.xbegin(1, true, rd())
		x.xget(1, a)
		x.xbegin(2, true, rd())
		x.xset(2, a, []byte("2"))
		x.xcommit(2, at())
		x.xset(1, a, []byte("3"))
		x.xcommit(1, at())
	case 1: // write skew
		x.xbegin(1, true, rd())
		x.xbegin(2, true, rd())
		x.xget(1, a)
		x.xget(2, b)
		x.xset(1, b, []byte("0"))
		x.xset(2, a, []byte("0"))
		x.xcommit(1, at())
		x.xcommit(2, at())
	case 2: // lost update
		x.xbegin(1, true, rd())
		x.xbegin(2, true, rd())
		x.xget(1, a)
		x.xget(2, a)
		x.xset(1, a, []byte("5"))
		x.xset(2, a, []byte("6"))
		x.xcommit(2, at())
		x.xcommit(1, at())
	case 3: // key observed by an iterator
		x.xbegin(1, true, rd())
		x.xiter(1, false, nil, nil)
		x.xbegin(2, true, rd())
		x.xset(2, b, []byte("7"))
		x.xcommit(2, at())
		x.xset(1, []byte("q"), []byte("1"))
		x.xcommit(1, at())
	case 4: // Seek key that does not exist, then created by another transaction
		x.xbegin(1, true, rd())
		x.xiter(1, false, nil, []byte("ax"))
		x.xbegin(2, true, rd())
		x.xset(2, []byte("ax"), []byte("7"))
		x.xcommit(2, at())
		x.xset(1, []byte("q"), []byte("1"))
		x.xcommit(1, at())
	case 5: // phantom: a key inserted into a scanned range is NOT a recorded read
		x.xbegin(1, true, rd())
		x.xiter(1, false, []byte("a"), nil)
		x.xbegin(2, true, rd())
		x.xset(2, []byte("aa"), []byte("7"))
		x.xcommit(2, at())
		x.xset(1, []byte("q"), []byte("1"))
		x.xcommit(1, at())
	case 6: // no overlap: both commit
		x.xbegin(1, true, rd())
		x.xbegin(2, true, rd())
		x.xget(1, a)
		x.xget(2, b)
		x.xset(1, a, []byte("8"))
		x.xset(2, b, []byte("9"))
		x.xcommit(1, at())
		x.xcommit(2, at())
	case 7: // a read served by the own pending write is not recorded
		x.xbegin(1, true, rd())
		x.xset(1, a, []byte("4"))
		x.xget(1, a)
		x.xbegin(2, true, rd())
		x.xset(2, a, []byte("2"))
		x.xcommit(2, at())
		x.xcommit(1, at())
	case 9: // Get of a DELETED key is a recorded read: re-created by another transaction => conflict
		x.xbegin(1, true, rd())
		x.xset(1, a, nil)
		x.xcommit(1, at())
		x.xbegin(2, true, rd())
		x.xget(2, a)
		x.xbegin(3, true, rd())
		x.xset(3, a, []byte("again"))
		x.xcommit(3, at())
		x.xset(2, []byte("q"), []byte("1"))
		x.xcommit(2, at())
	case 10: // Get of a key that never existed is a recorded read too
		x.xbegin(1, true, rd())
		x.xget(1, []byte("nx"))
		x.xbegin(2, true, rd())
		x.xset(2, []byte("nx"), []byte("new"))
		x.xcommit(2, at())
		x.xset(1, []byte("q"), []byte("1"))
		x.xcommit(1, at())
	case 11: // a deleted key read and then deleted again by another transaction (still a write)
		x.xbegin(1, true, rd())
		x.xset(1, b, nil)
		x.xcommit(1, at())
		x.xbegin(2, true, rd())
		x.xget(2, b)
		x.xget(2, a)
		x.xbegin(3, true, rd())
		x.xset(3, b, nil)
		x.xcommit(3, at())
		x.xset(2, b, []byte("mine"))
		x.xcommit(2, at())
	case 8: // long-running transaction across many commits and conflict-log cleanups
		x.xbegin(1, true, rd())
		x.xget(1, a)
		n := 6 + c.Rng.Intn(20)
		hit := c.Rng.Intn(2) == 0
		for i := 0; i < n; i++ {
			x.xbegin(10+i, true, rd())
			k := []byte(fmt.Sprintf("k%d", i%3))
			if hit && i == n/2 {
				k = a
			}
			x.xget(10+i, k)
			x.xset(10+i, k, []byte(fmt.Sprintf("%d", i)))
			x.xcommit(10+i, at())
			if managed && i%3 == 2 {
				// prune below the long-running transaction's read timestamp (caller contract)
				x.setDiscard(x.tx[1].rts)
			}
		}
		x.xset(1, []byte("q"), []byte("1"))
		x.xcommit(1, at())
	}
	x.serialCheck()
	return x, nil
}

// directedNonMono: managed mode, CommitAt timestamps issued out of order.  The conflict log is then
// not sorted by timestamp; a long-running reader L must still conflict with every commit above its
// read timestamp that wrote one of its reads, wherever that entry sits in the log.
//   kind 0: L reads k @10; W1 writes k @20; W2 writes another key @5 (issued later, lower ts);
//           L commits @30  => ErrConflict (variants: more low-ts commits after W1, W2 also writes k)
//   kind 1: the low commit first, then the conflicting one, then another low one; and the control
//           where the only writer of k commits at or below L's read timestamp => no conflict
func directedNonMono(c *Ctx, kind, variant int) (*xhist, error) {
	x, err := newXHist(c, concOpts(c, true))
	if err != nil {
		return nil, err
	}
	defer x.close()
	x.nonMono = true
	k, o, q := []byte("k"), []byte("other"), []byte("q")
	w := func(t int, key []byte, at uint64) {
		x.xbegin(t, true, at-1)
		x.xset(t, key, []byte(fmt.Sprintf("%d", at)))
		x.xcommit(t, at)
	}
	x.xbegin(1, true, 10) // L
	x.xget(1, k)
	if variant%2 == 1 {
		x.xiter(1, false, nil, k) // the key is also a Seek key
	}
	switch kind {
	case 0:
		w(2, k, 20)
		w(3, o, 5)
		if variant >= 2 {
			w(4, k, 7) // also writes k, but at or below L's read timestamp
			w(5, o, 3)
		}
	case 1:
		w(2, o, 6)
		if variant >= 2 {
			w(3, k, 9) // control: the only writer of k is at or below the read timestamp
		} else {
			w(3, k, 15)
		}
		w(4, o, 4)
		w(5, q, 25)
		w(6, o, 8)
	}
	x.xset(1, []byte("lw"), []byte("1"))
	x.xcommit(1, 30)
	x.serialCheck()
	return x, nil
}

// F12 witness: a commit refused after newCommitTs (ErrBlockedWrites, or ErrTxnTooBig at the exact
// size limit of finding F4) leaves its conflict keys in the log; an innocent transaction that read
// the key gets ErrConflict.
func scenarioF12(c *Ctx, tooBig bool, managed bool) (*xhist, bool, error) {
	o := sysOpts{Managed: managed, Detect: true, NKeep: 1, MaxLevels: 4, VThreshold: 32, TableSize: 1 << 20, BaseLevelSize: 8 << 10}
	if tooBig {
		o.MemSize = 1920 // maxBatchSize 288, maxBatchCount 3
	}
	x, err := newXHist(c, o)
	if err != nil {
		return nil, false, err
	}
	defer x.close()
	k := bytes.Repeat([]byte("k"), 240)
	var ts uint64 = 1
	if tooBig && !managed {
		// the end marker needs 3 digits: bring nextTxnTs to 100
		for i := 0; int(x.db.VerifNextTs()) < 100; i++ {
			x.xbegin(1000+i, true, 0)
			x.xset(1000+i, []byte("w"), []byte("v"))
			x.xcommit(1000+i, 0)
		}
	}
	if managed {
		ts = 99
	}
	rd := func() uint64 {
		if managed {
			return ts
		}
		return 0
	}
	x.xbegin(1, true, rd()) // the innocent transaction
	x.xget(1, k)
	x.xbegin(2, true, rd())
	if tooBig {
		x.xset(2, k, make([]byte, 14)) // 240 + 14 = 254: accepted by Set, one byte over at Commit when the ts has 3 digits
	} else {
		x.xset(2, k, []byte("v"))
		x.xblock(true)
	}
	ts++
	code := x.xcommit(2, ts)
	if !tooBig {
		x.xblock(false)
	}
	if code != 7 && code != 8 {
		if tooBig && code == 0 {
			// finding F4 is repaired on this tree: the exact-limit transaction now commits, so the
			// ErrTxnTooBig route into F12 is closed (the ErrBlockedWrites route still witnesses F12)
			c.Count("f12-toobig-route-closed-by-F4-fix")
			x.xdiscard(1)
			x.serialCheck()
			return x, false, nil
		}
		return x, false, fmt.Errorf("F12 scenario: the commit was not refused (code %d)", code)
	}
	x.xset(1, []byte("x"), []byte("y"))
	nf := c.nFail
	ts++
	x.xcommit(1, ts)
	reproduced := c.nFail > nf
	x.xbegin(3, false, ts)
	x.xget(3, k)
	x.xget(3, []byte("x"))
	x.xdiscard(3)
	x.serialCheck()
	return x, reproduced, nil
}

// windowSchedule: a reader in every window of a commit.  The writer (or the committing goroutine)
// is stopped by a hook inside the real Commit: after the i-th entry of the request went into the
// memtable ("persist.wal.put" i), after all of them but before the acknowledgement
// ("persist.batch.ack"), or after the timestamp was handed out and before the request is queued
// ("sendToWriteCh.beforeSend").  In that window: an older reader must see none of the commit's
// writes, Commit must not have returned, a transaction started now gets the commit's timestamp as
// read timestamp and (once NewTransaction returns) sees all of the writes.  The linearised labels
// (reads in the window before the Commit label) are replayed by the Coq model.
func windowSchedule(c *Ctx, win, nkeys int) (*xhist, error) {
	x, err := newXHist(c, sysOpts{Detect: true, NKeep: 1, MaxLevels: 4, VThreshold: 32, TableSize: 1 << 20, BaseLevelSize: 8 << 10})
	if err != nil {
		return nil, err
	}
	defer x.close()
	if err := x.runWindow(winCfg{keyPrefix: "k", win: win, nkeys: nkeys, seed: true, earlySig: "c34-reader-started-during-unfinished-commit"}); err != nil {
		return x, err
	}
	x.serialCheck()
	return x, nil
}

// winCfg: one commit with a reader in one of its windows, on an open history.
// Transaction ids idBase+0 (seed), +1 (older reader), +3 (writer), +4 (started in the window),
// +5 (started after Commit returned).
type winCfg struct {
	idBase    int
	keyPrefix string
	win       int  // 0..nkeys-1: after that entry went into the memtable; nkeys: before the ack; nkeys+1: before the request is queued
	nkeys     int
	seed      bool   // commit "0" to every key first (then this is not the first commit on the DB)
	earlySig  string // signature when a transaction started in the window reads at/above the commit ts without waiting
}

func (x *xhist) runWindow(w winCfg) error {
	c := x.c
	nkeys, win, b := w.nkeys, w.win, w.idBase
	keys := make([][]byte, nkeys)
	for i := range keys {
		keys[i] = []byte(fmt.Sprintf("%s%d", w.keyPrefix, i))
	}
	var old []byte // what a reader below the commit must see
	if w.seed {
		old = []byte("0")
		x.xbegin(b+0, true, 0)
		for _, k := range keys {
			x.xset(b+0, k, old)
		}
		x.xcommit(b+0, 0)
	}
	x.xbegin(b+1, false, 0) // the older reader
	x.xbegin(b+3, true, 0)  // the writer
	for i, k := range keys {
		v := []byte("1")
		if i%2 == 1 {
			v = bytes.Repeat([]byte("1"), 40) // above the value threshold of the history DBs: value log
		}
		x.xset(b+3, k, v)
	}
	target, idx := "persist.wal.put", win
	switch {
	case win == nkeys:
		target, idx = "persist.batch.ack", -1
	case win == nkeys+1:
		target, idx = "sendToWriteCh.beforeSend", -1
	}
	var armed atomic.Bool
	reached := make(chan struct{}, 1)
	release := make(chan struct{})
	badger.VerifSetController(&badger.VerifController{Point: func(name string, args ...uint64) {
		if name != target || !armed.Load() {
			return
		}
		if idx >= 0 && (len(args) == 0 || args[0] != uint64(idx)) {
			return
		}
		if armed.CompareAndSwap(true, false) {
			reached <- struct{}{}
			<-release
		}
	}})
	armed.Store(true)
	done := make(chan int, 1)
	go func() { done <- x.xcommit(b+3, 0) }()
	select {
	case <-reached:
	case <-time.After(20 * time.Second):
		close(release)
		return fmt.Errorf("window schedule: hook %s/%d was not reached", target, idx)
	}
	cts := x.db.VerifNextTs() - 1 // newCommitTs has run in every window
	rep := J{"window": fmt.Sprintf("%s/%d", target, idx), "keys": nkeys, "commit_ts": cts, "prefix": w.keyPrefix}
	isOld := func(v []byte) bool { return bytes.Equal(v, old) }
	// (1) the older reader, inside the window
	none := true
	for _, k := range keys {
		if _, v := x.xget(b+1, k); !isOld(v) {
			none = false
		}
	}
	x.xiter(b+1, false, []byte(w.keyPrefix), nil)
	c.Oracle(none, "c03-partial-commit-observed", "a reader below the commit timestamp saw a write of a commit that is being applied", rep)
	// (2) Commit has not returned
	c.Oracle(len(done) == 0, "c03-commit-returned-before-applied", "Commit returned while its request was still being applied", rep)
	// (3) a transaction started inside the window: NewTransaction must wait for the acknowledgement
	// (its read timestamp is the commit's timestamp)
	r1 := make(chan *badger.Txn, 1)
	go func() { r1 <- x.db.NewTransaction(false) }()
	var tx1 *badger.Txn
	select {
	case tx1 = <-r1:
		c.Count("window-reader-not-blocked")
	case <-time.After(15 * time.Millisecond):
		c.Count("window-reader-blocked-until-ack")
	}
	var inWin []int
	if tx1 != nil {
		// it did not wait: what it reads now, while the commit is unfinished
		n := 0
		for _, k := range keys {
			if it, err := tx1.Get(k); err == nil {
				if v, _ := it.ValueCopy(nil); len(v) > 0 && v[0] == '1' {
					n++
				}
			}
		}
		inWin = append(inWin, n)
		rep["reader_rts"] = tx1.VerifReadTs()
		rep["new_values_seen_in_window"] = n
	}
	c.Oracle(tx1 == nil || tx1.VerifReadTs() < cts, w.earlySig,
		"a transaction started while a commit was still being applied got a read timestamp at or above that commit's timestamp without waiting for it (it can read a partially applied commit)", rep)
	close(release)
	code := <-done
	if tx1 == nil {
		tx1 = <-r1
	}
	if code != 0 {
		return fmt.Errorf("window schedule: commit failed with code %d", code)
	}
	x.txns[b+4], x.tupd[b+4], x.tpend[b+4] = tx1, false, nil
	x.tx[b+4] = &ctxn{id: b + 4, rts: tx1.VerifReadTs(), writes: map[string][]byte{}}
	x.emit(fmt.Sprintf("(Begin %d false %d)", b+4, tx1.VerifReadTs()), fmt.Sprintf("begin t%d (inside the window) rts=%d", b+4, tx1.VerifReadTs()))
	nNew := 0
	for _, k := range keys {
		_, v := x.xget(b+4, k)
		if len(v) > 0 && v[0] == '1' {
			nNew++
		}
	}
	okRep := nNew == 0 || nNew == nkeys
	for _, n := range inWin {
		if n != nNew {
			okRep = false // partial, or not repeatable inside one transaction
		}
	}
	c.Oracle(okRep, "c03-partial-commit-observed", "a transaction started while a commit was being applied saw only part of it (or its reads changed when the commit finished)", rep)
	if tx1.VerifReadTs() >= cts {
		c.Oracle(nNew == nkeys, "c03-commit-not-visible-at-its-timestamp", "a transaction whose read timestamp is at or above the commit's timestamp does not see the commit", rep)
	}
	// (4) a transaction started after Commit returned
	x.xbegin(b+5, false, 0)
	nNew = 0
	for _, k := range keys {
		_, v := x.xget(b+5, k)
		if len(v) > 0 && v[0] == '1' {
			nNew++
		}
	}
	x.xiter(b+5, c.Rng.Intn(2) == 0, []byte(w.keyPrefix), nil)
	c.Oracle(nNew == nkeys, "c03-commit-not-visible-after-return", "a transaction started after Commit returned does not see all of its writes", rep)
	// the older reader still sees none of it
	none = true
	for _, k := range keys {
		if _, v := x.xget(b+1, k); !isOld(v) {
			none = false
		}
	}
	c.Oracle(none, "c03-partial-commit-observed", "a reader below the commit timestamp saw a write of a later commit", rep)
	x.xdiscard(b + 1)
	x.xdiscard(b + 4)
	x.xdiscard(b + 5)
	badger.VerifSetController(nil)
	return nil
}

func xInput(x *xhist) J {
	d := x.desc
	if len(d) > 30 {
		d = d[len(d)-30:]
	}
	return J{"n_labels": len(x.desc), "last_labels": d, "digest": digest(x.desc)}
}

func runConcSchedules(c *Ctx, c03 bool) error {
	c.Setup("Keys Spec Lsm Compact Iter Sys SysRejected TxnLog CorrConc", "run_case")
	// witnesses first
	rep := 0
	for i, w := range []struct{ tooBig, managed bool }{{false, false}, {true, false}, {true, true}, {false, true}} {
		if w.tooBig && c28MarkerFixed() {
			// finding F4 is repaired on this tree: an exact-limit transaction no longer fails at
			// Commit, so this route into F12 is closed; the ErrBlockedWrites witnesses remain
			c.Count("f12-toobig-route-closed-by-F4-fix")
			continue
		}
		x, r, err := scenarioF12(c, w.tooBig, w.managed)
		if err != nil {
			return err
		}
		if r {
			rep++
		}
		c.Case(fmt.Sprintf("witness-F12-%d", i), x.xterm(), xInput(x))
	}
	c.Extra["witness_F12_reproduced"] = rep
	spurious, cleanups := 0, 0
	for i := 0; c.nCases < c.N; i++ {
		var x *xhist
		var err error
		kind := "random"
		switch {
		case c03 && i%7 == 1:
			nk := 2 + (i/7)%3
			w := (i / 21) % (nk + 2)
			kind = fmt.Sprintf("window-%d", w-nk)
			if w < nk {
				kind = "window-entry"
			}
			x, err = windowSchedule(c, w, nk)
		case i%5 == 0 && (i/5)%14 >= 12:
			k := (i/5)%14 - 12
			v := (i / 70) % 4
			kind = fmt.Sprintf("directed-nonmono-%d", k)
			x, err = directedNonMono(c, k, v)
		case i%5 == 0:
			k := (i / 5) % 14
			managed := (i/70)%2 == 1
			kind = fmt.Sprintf("directed-%d", k)
			x, err = directed(c, k, managed)
		default:
			g := schedCfg{name: "random", keys: concKeys[:2+c.Rng.Intn(5)], nTxn: 2 + c.Rng.Intn(4), nSteps: 12 + c.Rng.Intn(30),
				iter: c.Rng.Intn(3) != 0, long: c.Rng.Intn(4) == 0, managed: i%5 == 3 || i%10 == 7, multi: c03 || c.Rng.Intn(5) == 0}
			g.nonMono = i%10 == 7 || (g.managed && c.Rng.Intn(4) == 0)
			if c.Rng.Intn(6) == 0 {
				g.wBlock = 150
			}
			if g.managed {
				kind = "random-managed"
			}
			if g.nonMono {
				kind = "random-managed-nonmono"
			}
			if g.long {
				kind += "-long"
			}
			x, err = runSchedule(c, g)
		}
		if err != nil {
			if x != nil {
				c.Oracle(false, "harness-error:conc", err.Error(), J{"history": x.desc})
			}
			return err
		}
		c.Case(kind, x.xterm(), xInput(x))
		spurious += x.nSpurious
		cleanups += x.cleanups
		nc, nr, ncf := 0, 0, 0
		for _, t := range x.tx {
			switch t.outcome {
			case "committed":
				nc++
			case "rejected":
				nr++
			case "conflict":
				ncf++
			}
		}
		c.Count(fmt.Sprintf("conflicts=%d", min(ncf, 4)))
		c.Count(fmt.Sprintf("rejected-after-ts=%d", min(nr, 2)))
		c.Count(fmt.Sprintf("committed=%d", min(nc/4*4, 12)))
	}
	c.Extra["spurious_conflicts_seen"] = spurious
	c.Extra["conflict_log_cleanups_with_open_txn"] = cleanups
	return nil
}

// ---------------------------------------------------------------------------------------------
// (b) concurrency stress (oracle only)

func stressDB(name string, mem int64, extra func(badger.Options) badger.Options) (*badger.DB, string, error) {
	dir := filepath.Join(os.Getenv("VERIF_SCRATCH_DIR"), name)
	if os.Getenv("VERIF_SCRATCH_DIR") == "" {
		dir = filepath.Join(os.TempDir(), fmt.Sprintf("verif_conc_%d_%s", os.Getpid(), name))
	}
	os.RemoveAll(dir)
	os.MkdirAll(dir, 0o755)
	opt := badger.DefaultOptions(dir).WithLoggingLevel(badger.ERROR).WithMemTableSize(mem).WithValueLogFileSize(1 << 22).
		WithNumMemtables(4).WithNumLevelZeroTables(4).WithNumLevelZeroTablesStall(12).WithBaseTableSize(64 << 10).WithBaseLevelSize(256 << 10).
		WithValueThreshold(256).WithMetricsEnabled(false).WithNumCompactors(2).WithDetectConflicts(true)
	if extra != nil {
		opt = extra(opt)
	}
	db, err := badger.Open(opt)
	return db, dir, err
}

var stressMu sync.Mutex

// stressFail records an oracle failure from a worker goroutine (Ctx is not goroutine-safe)
func stressFail(c *Ctx, sig, what string, rep J) {
	stressMu.Lock()
	defer stressMu.Unlock()
	c.Oracle(false, sig, what, rep)
}

func jitter(r *rand.Rand) {
	switch r.Intn(8) {
	case 0:
		runtime.Gosched()
	case 1:
		time.Sleep(time.Duration(r.Intn(200)) * time.Microsecond)
	}
}

func u64(b []byte) uint64 {
	var v uint64
	fmt.Sscanf(string(b), "%d", &v)
	return v
}

// bank transfers: the sum of all accounts is preserved in every snapshot and at the end
func stressBank(c *Ctx, scale int) error {
	db, dir, err := stressDB("bank", 64<<10, nil)
	if err != nil {
		return err
	}
	defer os.RemoveAll(dir)
	defer db.Close()
	const nAcc = 8
	const initial = 1000
	acc := func(i int) []byte { return []byte(fmt.Sprintf("acc%02d", i)) }
	if err := db.Update(func(t *badger.Txn) error {
		for i := 0; i < nAcc; i++ {
			if err := t.Set(acc(i), []byte(fmt.Sprintf("%d", initial))); err != nil {
				return err
			}
		}
		return nil
	}); err != nil {
		return err
	}
	var wg sync.WaitGroup
	var stop atomic.Bool
	var nCommit, nConflict, nSnap, badSnap atomic.Int64
	workers, per := 6, 150*scale
	seed := c.Rng.Int63()
	for w := 0; w < workers; w++ {
		wg.Add(1)
		go func(w int) {
			defer wg.Done()
			r := rand.New(rand.NewSource(seed + int64(w)))
			for i := 0; i < per; i++ {
				a, b := r.Intn(nAcc), r.Intn(nAcc)
				if a == b {
					continue
				}
				amt := uint64(1 + r.Intn(5))
				err := db.Update(func(t *badger.Txn) error {
					ia, err := t.Get(acc(a))
					if err != nil {
						return err
					}
					jitter(r)
					ib, err := t.Get(acc(b))
					if err != nil {
						return err
					}
					va, _ := ia.ValueCopy(nil)
					vb, _ := ib.ValueCopy(nil)
					x, y := u64(va), u64(vb)
					if x < amt {
						return nil
					}
					jitter(r)
					if err := t.Set(acc(a), []byte(fmt.Sprintf("%d", x-amt))); err != nil {
						return err
					}
					return t.Set(acc(b), []byte(fmt.Sprintf("%d", y+amt)))
				})
				switch {
				case err == nil:
					nCommit.Add(1)
				case errors.Is(err, badger.ErrConflict):
					nConflict.Add(1)
				default:
					stressFail(c, "c02-stress-unexpected-error", err.Error(), J{"stress": "bank"})
				}
			}
		}(w)
	}
	var rg sync.WaitGroup
	for rdr := 0; rdr < 2; rdr++ {
		rg.Add(1)
		go func(rdr int) {
			defer rg.Done()
			r := rand.New(rand.NewSource(seed + 100 + int64(rdr)))
			for !stop.Load() {
				sum := uint64(0)
				db.View(func(t *badger.Txn) error {
					if rdr == 0 {
						for i := 0; i < nAcc; i++ {
							it, err := t.Get(acc(i))
							if err != nil {
								return err
							}
							v, _ := it.ValueCopy(nil)
							sum += u64(v)
							if i == nAcc/2 {
								jitter(r)
							}
						}
					} else {
						it := t.NewIterator(badger.IteratorOptions{Prefix: []byte("acc"), PrefetchValues: true, PrefetchSize: 3})
						for it.Rewind(); it.Valid(); it.Next() {
							v, _ := it.Item().ValueCopy(nil)
							sum += u64(v)
						}
						it.Close()
					}
					return nil
				})
				nSnap.Add(1)
				if sum != nAcc*initial {
					badSnap.Add(1)
				}
				jitter(r)
			}
		}(rdr)
	}
	wg.Wait()
	stop.Store(true)
	rg.Wait()
	c.Oracle(badSnap.Load() == 0, "c03-partial-commit-observed", "a read-only snapshot saw a bank total different from the invariant (a transfer partly visible)",
		J{"stress": "bank", "bad": badSnap.Load(), "snapshots": nSnap.Load()})
	sum := uint64(0)
	db.View(func(t *badger.Txn) error {
		for i := 0; i < nAcc; i++ {
			it, err := t.Get(acc(i))
			if err != nil {
				return err
			}
			v, _ := it.ValueCopy(nil)
			sum += u64(v)
		}
		return nil
	})
	c.Oracle(sum == nAcc*initial, "c02-sum-not-preserved", "the bank total changed: a transfer was applied on a stale read",
		J{"stress": "bank", "sum": sum, "commits": nCommit.Load(), "conflicts": nConflict.Load()})
	c.Extra["bank"] = J{"commits": nCommit.Load(), "conflicts": nConflict.Load(), "snapshots": nSnap.Load()}
	c.nOracle += int(nSnap.Load())
	return nil
}

// increments: read-modify-write counters with retry; no increment is lost
func stressIncrement(c *Ctx, scale int) error {
	db, dir, err := stressDB("incr", 32<<10, nil)
	if err != nil {
		return err
	}
	defer os.RemoveAll(dir)
	defer db.Close()
	const nCtr = 3
	ctr := func(i int) []byte { return []byte(fmt.Sprintf("ctr%d", i)) }
	var done [nCtr]atomic.Int64
	var nConflict atomic.Int64
	var wg sync.WaitGroup
	workers, per := 6, 120*scale
	seed := c.Rng.Int63()
	for w := 0; w < workers; w++ {
		wg.Add(1)
		go func(w int) {
			defer wg.Done()
			r := rand.New(rand.NewSource(seed + int64(w)))
			for i := 0; i < per; i++ {
				k := r.Intn(nCtr)
				for try := 0; try < 200; try++ {
					t := db.NewTransaction(true)
					cur := uint64(0)
					if w%2 == 0 {
						if it, err := t.Get(ctr(k)); err == nil {
							v, _ := it.ValueCopy(nil)
							cur = u64(v)
						}
					} else {
						// read through an iterator (Item records the key; Seek records the key even when absent)
						it := t.NewIterator(badger.IteratorOptions{PrefetchValues: false})
						it.Seek(ctr(k))
						if it.Valid() && bytes.Equal(it.Item().Key(), ctr(k)) {
							v, _ := it.Item().ValueCopy(nil)
							cur = u64(v)
						}
						it.Close()
					}
					jitter(r)
					t.Set(ctr(k), []byte(fmt.Sprintf("%d", cur+1)))
					var err error
					if w == 1 {
						ch := make(chan error, 1)
						t.CommitWith(func(e error) { ch <- e })
						err = <-ch
					} else {
						err = t.Commit()
					}
					if err == nil {
						done[k].Add(1)
						break
					}
					if !errors.Is(err, badger.ErrConflict) {
						stressFail(c, "c02-stress-unexpected-error", err.Error(), J{"stress": "incr"})
						break
					}
					nConflict.Add(1)
				}
			}
		}(w)
	}
	wg.Wait()
	for k := 0; k < nCtr; k++ {
		got := uint64(0)
		db.View(func(t *badger.Txn) error {
			if it, err := t.Get(ctr(k)); err == nil {
				v, _ := it.ValueCopy(nil)
				got = u64(v)
			}
			return nil
		})
		c.Oracle(int64(got) == done[k].Load(), "c02-lost-update", "a counter is not equal to the number of successful increments",
			J{"stress": "incr", "counter": k, "value": got, "successful_commits": done[k].Load()})
	}
	c.Extra["incr"] = J{"conflicts": nConflict.Load(), "commits": done[0].Load() + done[1].Load() + done[2].Load()}
	return nil
}

// atomicity + visibility + timestamps: writers commit k1..kn = i in one transaction (values large
// enough to rotate a tiny memtable in the middle of a batch); readers check all-or-none, and that
// a transaction begun after Commit returned sees the write; commit timestamps are read back from
// the stored versions
func stressAtomic(c *Ctx, scale int, useCommitWith bool) error {
	name := "atomic"
	if useCommitWith {
		name = "atomiccw"
	}
	db, dir, err := stressDB(name, 8<<10, func(o badger.Options) badger.Options { return o.WithDetectConflicts(!useCommitWith).WithValueThreshold(64) })
	if err != nil {
		return err
	}
	defer os.RemoveAll(dir)
	defer db.Close()
	const nKeys = 6
	writers, per := 3, 250*scale
	key := func(w, j int) []byte { return []byte(fmt.Sprintf("w%d/k%d", w, j)) }
	var returned [3]atomic.Uint64 // highest i whose Commit has returned, per writer
	var clock atomic.Uint64
	type stamp struct {
		start, end uint64
		w, i       int
	}
	stamps := make([][]stamp, writers)
	var wg sync.WaitGroup
	var stop atomic.Bool
	var nPartial, nInvisible, nReads atomic.Int64
	var firstBad atomic.Value
	seed := c.Rng.Int63()
	for w := 0; w < writers; w++ {
		wg.Add(1)
		go func(w int) {
			defer wg.Done()
			r := rand.New(rand.NewSource(seed + int64(w)))
			for i := 1; i <= per; i++ {
				t := db.NewTransaction(true)
				pad := strings.Repeat("x", 20+r.Intn(120)) // below and above the value threshold
				for j := 0; j < nKeys; j++ {
					t.Set(key(w, j), []byte(fmt.Sprintf("%d %s", i, pad)))
				}
				t.Set([]byte(fmt.Sprintf("ts/%d/%06d", w, i)), []byte("1"))
				st := stamp{start: clock.Add(1), w: w, i: i}
				var err error
				if useCommitWith {
					ch := make(chan error, 1)
					t.CommitWith(func(e error) { ch <- e })
					err = <-ch
				} else {
					err = t.Commit()
				}
				st.end = clock.Add(1)
				if err != nil {
					stressFail(c, "c03-stress-unexpected-error", err.Error(), J{"stress": name})
					return
				}
				returned[w].Store(uint64(i))
				stamps[w] = append(stamps[w], st)
				jitter(r)
			}
		}(w)
	}
	var rg sync.WaitGroup
	for rdr := 0; rdr < 3; rdr++ {
		rg.Add(1)
		go func(rdr int) {
			defer rg.Done()
			r := rand.New(rand.NewSource(seed + 50 + int64(rdr)))
			for !stop.Load() {
				w := r.Intn(writers)
				floor := returned[w].Load() // Commit of `floor` returned before this transaction begins
				t := db.NewTransaction(false)
				var vals []uint64
				if rdr == 2 {
					it := t.NewIterator(badger.IteratorOptions{Prefix: []byte(fmt.Sprintf("w%d/", w)), PrefetchValues: true, PrefetchSize: 2})
					for it.Rewind(); it.Valid(); it.Next() {
						v, _ := it.Item().ValueCopy(nil)
						vals = append(vals, u64(v))
						jitter(r)
					}
					it.Close()
				} else {
					for j := 0; j < nKeys; j++ {
						jj := j
						if rdr == 1 {
							jj = nKeys - 1 - j
						}
						it, err := t.Get(key(w, jj))
						if err != nil {
							vals = append(vals, 0)
						} else {
							v, _ := it.ValueCopy(nil)
							vals = append(vals, u64(v))
						}
						if j == 2 {
							jitter(r)
						}
					}
				}
				t.Discard()
				nReads.Add(1)
				partial := false
				for _, v := range vals {
					if v != vals[0] {
						partial = true
					}
				}
				if len(vals) != nKeys && !(len(vals) == 0 && floor == 0) {
					partial = true
				}
				if partial {
					nPartial.Add(1)
					firstBad.CompareAndSwap(nil, fmt.Sprintf("writer %d values %v", w, vals))
				} else if len(vals) > 0 && vals[0] < floor || (len(vals) == 0 && floor > 0) {
					nInvisible.Add(1)
					firstBad.CompareAndSwap(nil, fmt.Sprintf("writer %d floor %d values %v", w, floor, vals))
				}
			}
		}(rdr)
	}
	wg.Wait()
	stop.Store(true)
	rg.Wait()
	fb, _ := firstBad.Load().(string)
	c.Oracle(nPartial.Load() == 0, "c03-partial-commit-observed", "a reader saw only part of a multi-key commit", J{"stress": name, "count": nPartial.Load(), "first": fb})
	c.Oracle(nInvisible.Load() == 0, "c03-commit-not-visible-after-return", "a transaction begun after Commit returned did not see the commit", J{"stress": name, "count": nInvisible.Load(), "first": fb})
	c.nOracle += int(nReads.Load())
	// commit timestamps: distinct; increasing in issue order (A returned before B was issued => ts A < ts B)
	type cs struct {
		stamp
		ts uint64
	}
	var all []cs
	db.View(func(t *badger.Txn) error {
		for w := 0; w < writers; w++ {
			for _, st := range stamps[w] {
				it, err := t.Get([]byte(fmt.Sprintf("ts/%d/%06d", st.w, st.i)))
				if err != nil {
					c.Oracle(false, "c03-commit-not-visible-after-return", "a committed marker key is missing at the end", J{"stress": name, "w": st.w, "i": st.i})
					continue
				}
				all = append(all, cs{st, it.Version()})
			}
		}
		return nil
	})
	seen := map[uint64]bool{}
	okTs := true
	for _, a := range all {
		if seen[a.ts] {
			okTs = false
		}
		seen[a.ts] = true
	}
	sort.Slice(all, func(i, j int) bool { return all[i].start < all[j].start })
	// maxTsEndedBefore: sweep in start order
	byEnd := append([]cs{}, all...)
	sort.Slice(byEnd, func(i, j int) bool { return byEnd[i].end < byEnd[j].end })
	var maxTs uint64
	e := 0
	for _, b := range all {
		for e < len(byEnd) && byEnd[e].end < b.start {
			if byEnd[e].ts > maxTs {
				maxTs = byEnd[e].ts
			}
			e++
		}
		if b.ts <= maxTs && maxTs != 0 {
			okTs = false
		}
	}
	c.Oracle(okTs, "c03-duplicate-or-nonmonotonic-commit-ts", "two commits share a timestamp, or a commit issued after another returned got a smaller timestamp",
		J{"stress": name, "commits": len(all)})
	c.Extra[name] = J{"commits": len(all), "reader_transactions": nReads.Load()}
	return nil
}

func concScale(c *Ctx) int {
	s := c.N / 250
	if s < 1 {
		s = 1
	}
	if s > 20 {
		s = 20
	}
	return s
}

func init() {
	register("C02", func(c *Ctx) error {
		if runtime.GOMAXPROCS(0) < 4 {
			runtime.GOMAXPROCS(4)
		}
		if err := runConcSchedules(c, false); err != nil {
			return err
		}
		if err := stressBank(c, concScale(c)); err != nil {
			return err
		}
		return stressIncrement(c, concScale(c))
	})
	register("C03", func(c *Ctx) error {
		if runtime.GOMAXPROCS(0) < 4 {
			runtime.GOMAXPROCS(4)
		}
		if err := runConcSchedules(c, true); err != nil {
			return err
		}
		if err := runWindowAfterReset(c); err != nil {
			return err
		}
		if err := runC03CommitOrder(c); err != nil {
			return err
		}
		if err := runReadersVsCompactions(c); err != nil {
			return err
		}
		if err := stressAtomic(c, concScale(c), false); err != nil {
			return err
		}
		if err := stressAtomic(c, concScale(c), true); err != nil {
			return err
		}
		return stressBank(c, concScale(c))
	})
}
