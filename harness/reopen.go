package main

// C07 / C11 / C14: histories with close / re-open cycles (read-write, read-only, other
// options), DropAll, and structure checks.  The labels are the shared ones (sys.go) wrapped in
// `Base`, plus Reopen / DropAll / GetAt / CheckWf (coq/B/SysReopen.v, corr/CorrReopen.v).
//
// Property oracles evaluated on the implementation (signatures):
//   c07-read-differs-after-reopen        any Get (several read timestamps) / iteration / AllVersions
//                                        iteration differs between just before Close and after Open
//   c07-readonly-open-modified-files     the file tree (names, sizes, contents) differs between the
//                                        moment before a read-only Open and (a) after the reads
//                                        while it is open, (b) after its Close
//   c07-close-error / c07-reopen-error   Close or Open failed
//   c11-commit-ts-not-above-stored-version   normal mode: a commit's timestamp is not above the
//                                        largest version stored (memtables + tables) before it
//   c14-open-validation-failed           Open failed in levelsController.validate
//   c14-directory-tables-differ-from-manifest / c14-open-tables-differ-from-manifest
//   c14-level-tables-overlap-or-unsorted / c14-key-versions-split-across-tables /
//   c14-table-empty-or-unsorted / c14-duplicate-table-id

import (
	"bytes"
	"crypto/sha256"
	"encoding/hex"
	"errors"
	"fmt"
	"io"
	"math"
	"os"
	"path/filepath"
	"sort"
	"strings"
	"time"

	badger "github.com/dgraph-io/badger/v4"
	"github.com/dgraph-io/badger/v4/options"
	"github.com/dgraph-io/badger/v4/table"
)

type xh struct {
	*hist
	ro                  bool
	variant             int
	roHash              map[string]string // file tree just before the current read-only Open
	keys                [][]byte
	nReopen, nRO, nDrop int
	firstCommit         bool // the next commit is the first one after a re-open / DropAll
}

func isXLabel(s string) bool {
	return strings.HasPrefix(s, "(Reopen ") || strings.HasPrefix(s, "(DropAll ") || strings.HasPrefix(s, "(GetAt ") || s == "CheckWf"
}

func (x *xh) term() string {
	ops := make([]string, len(x.ops))
	for i, o := range x.ops {
		if isXLabel(o) {
			ops[i] = o
		} else {
			ops[i] = "(Base " + o + ")"
		}
	}
	return fmt.Sprintf("(XHist %s %s %d %d %d [\n  %s])", Bool(x.o.Managed), Bool(x.o.Detect), x.o.NKeep, x.o.MaxLevels, x.next0,
		strings.Join(ops, ";\n  "))
}

// openVariant: the options of openSysDB, with settings that a re-open may change (they do not
// change what the model computes: level sizes and table sizes stay, see checks/C07.json)
func openVariant(dir string, o sysOpts, ro bool, variant int) (*badger.DB, error) {
	opt := badger.DefaultOptions(dir)
	opt = opt.WithLoggingLevel(badger.ERROR).WithNumCompactors(0).WithNumLevelZeroTables(1000).
		WithNumLevelZeroTablesStall(2000).WithMemTableSize(memSize(o)).WithValueLogFileSize(1 << 20).
		WithNumVersionsToKeep(o.NKeep).WithDetectConflicts(o.Detect).WithMaxLevels(o.MaxLevels).
		WithBaseTableSize(o.TableSize).WithBaseLevelSize(o.BaseLevelSize).WithLevelSizeMultiplier(2).
		WithNumMemtables(8).WithBlockSize(64).WithMetricsEnabled(false).WithCompactL0OnClose(false).
		WithValueThreshold(o.VThreshold).WithReadOnly(ro)
	switch variant % 5 {
	case 1:
		opt = opt.WithNumLevelZeroTables(3).WithNumLevelZeroTablesStall(1500).WithNumMemtables(3)
	case 2:
		opt = opt.WithBlockSize(128).WithBloomFalsePositive(0.2).WithSyncWrites(true)
	case 3:
		opt = opt.WithCompression(options.Snappy).WithBlockCacheSize(1 << 20)
	case 4:
		opt = opt.WithMemTableSize(2 << 20).WithValueLogFileSize(2 << 20).WithVerifyValueChecksum(true)
	}
	if o.Managed {
		return badger.OpenManaged(opt)
	}
	return badger.Open(opt)
}

// ---- file tree ----
func reopenTreeHash(dir string) map[string]string {
	out := map[string]string{}
	filepath.Walk(dir, func(p string, info os.FileInfo, err error) error {
		if err != nil {
			out[p] = "error:" + err.Error()
			return nil
		}
		rel, _ := filepath.Rel(dir, p)
		if info.IsDir() {
			out[rel+"/"] = "dir"
			return nil
		}
		f, err := os.Open(p)
		if err != nil {
			out[rel] = "error:" + err.Error()
			return nil
		}
		hs := sha256.New()
		n, _ := io.Copy(hs, f)
		f.Close()
		out[rel] = fmt.Sprintf("%d:%s", n, hex.EncodeToString(hs.Sum(nil)[:12]))
		return nil
	})
	return out
}

func treeDiff(a, b map[string]string) []string {
	var d []string
	for k, v := range a {
		if w, ok := b[k]; !ok {
			d = append(d, "deleted "+k)
		} else if w != v {
			d = append(d, "modified "+k+" "+v+" -> "+w)
		}
	}
	for k, v := range b {
		if _, ok := a[k]; !ok {
			d = append(d, "created "+k+" "+v)
		}
	}
	sort.Strings(d)
	return d
}

// ---- reads used for the before/after comparison ----
func (x *xh) readTxn(ts uint64) *badger.Txn {
	if x.o.Managed {
		return x.db.NewTransactionAt(ts, false)
	}
	return x.db.VerifReadTxnAt(ts)
}

func (x *xh) universe() [][]byte {
	m := map[string]bool{}
	for _, k := range x.keys {
		m[string(k)] = true
	}
	for _, w := range x.ref {
		m[string(w.Key)] = true
	}
	var ks [][]byte
	for k := range m {
		ks = append(ks, []byte(k))
	}
	sort.Slice(ks, func(i, j int) bool { return bytes.Compare(ks[i], ks[j]) < 0 })
	return ks
}

// read timestamps: around the versions written so far (a sample), 0, the newest, "infinity"
func (x *xh) sampleTs(max int) []uint64 {
	m := map[uint64]bool{0: true, math.MaxUint64: true, x.db.MaxVersion(): true}
	var vs []uint64
	seen := map[uint64]bool{}
	for _, w := range x.ref {
		if !seen[w.Ver] {
			seen[w.Ver] = true
			vs = append(vs, w.Ver)
		}
	}
	sort.Slice(vs, func(i, j int) bool { return vs[i] < vs[j] })
	step := 1
	if len(vs) > max {
		step = (len(vs) + max - 1) / max
	}
	for i := 0; i < len(vs); i += step {
		m[vs[i]] = true
		if vs[i] > 0 {
			m[vs[i]-1] = true
		}
	}
	if len(vs) > 0 {
		m[vs[len(vs)-1]] = true
	}
	var out []uint64
	for t := range m {
		out = append(out, t)
	}
	sort.Slice(out, func(i, j int) bool { return out[i] < out[j] })
	return out
}

func itemLine(oi obsItem) string {
	return fmt.Sprintf("%x@%d m=%d u=%d e=%d v=%x", oi.Key, oi.Ver, oi.Meta, oi.UMeta, oi.Exp, oi.Val)
}

func (x *xh) snapshot(tss []uint64) []string {
	defer timed("snapshot")()
	var out []string
	keys := x.universe()
	for _, ts := range tss {
		tx := x.readTxn(ts)
		for _, k := range keys {
			item, err := tx.Get(k)
			switch {
			case err == nil:
				oi, verr := readItem(item)
				if verr != nil {
					out = append(out, fmt.Sprintf("get %x at %d -> value error %v", k, ts, verr))
				} else {
					out = append(out, fmt.Sprintf("get %x at %d -> %s", k, ts, itemLine(oi)))
				}
			case errors.Is(err, badger.ErrKeyNotFound):
				out = append(out, fmt.Sprintf("get %x at %d -> notfound", k, ts))
			default:
				out = append(out, fmt.Sprintf("get %x at %d -> error %v", k, ts, err))
			}
		}
		tx.Discard()
	}
	for _, all := range []bool{false, true} {
		for _, rev := range []bool{false, true} {
			tx := x.readTxn(math.MaxUint64)
			it := tx.NewIterator(badger.IteratorOptions{AllVersions: all, Reverse: rev, PrefetchValues: true, PrefetchSize: 3})
			n := 0
			for it.Rewind(); it.Valid() && n < 20000; it.Next() {
				oi, verr := readItem(it.Item())
				if verr != nil {
					out = append(out, fmt.Sprintf("iter all=%v rev=%v -> value error %v", all, rev, verr))
				} else {
					out = append(out, fmt.Sprintf("iter all=%v rev=%v -> %s", all, rev, itemLine(oi)))
				}
				n++
			}
			it.Close()
			tx.Discard()
		}
	}
	return out
}

// getAt: one Get by a read-only transaction at read timestamp ts, as a label for the model
func (x *xh) getAt(k []byte, ts uint64) {
	tx := x.readTxn(ts)
	defer tx.Discard()
	item, err := tx.Get(k)
	var term, d string
	switch {
	case err == nil:
		oi, verr := readItem(item)
		if verr != nil {
			term = "(GErr 98)"
		} else {
			term = "(GFound " + entTerm(oi.Key, oi.Ver, oi.Meta, oi.UMeta, oi.Exp, oi.Val) + ")"
		}
		d = fmt.Sprintf("found v=%d val=%x", oi.Ver, oi.Val)
	case errors.Is(err, badger.ErrKeyNotFound):
		term, d = "GNotFound", "notfound"
	default:
		term, d = fmt.Sprintf("(GErr %d)", errCode(err)), err.Error()
	}
	x.emit(fmt.Sprintf("(GetAt %s %d %s)", B(k), ts, term), fmt.Sprintf("getAt %x ts=%d -> %s", k, ts, d))
}

func (x *xh) someGetAts(n int) {
	keys := x.universe()
	tss := x.sampleTs(4)
	for i := 0; i < n && len(keys) > 0; i++ {
		ts := tss[x.c.Rng.Intn(len(tss))]
		if ts == math.MaxUint64 && x.c.Rng.Intn(3) != 0 {
			ts = x.db.MaxVersion() + 1
		}
		k := keys[x.c.Rng.Intn(len(keys))]
		if x.c.Rng.Intn(12) == 0 {
			k = nil // boundary: ErrEmptyKey
		}
		x.getAt(k, ts)
	}
}

// ---- structure (C14) ----
func entLess(a, b badger.VerifEntry) bool { // internal-key order: user key asc, version desc
	if c := bytes.Compare(a.Key, b.Key); c != 0 {
		return c < 0
	}
	return a.Version > b.Version
}

func (x *xh) checkStructure(where string) {
	d := x.db.VerifDump()
	ids := map[uint64]bool{}
	dup, tableBad, overlap, split := "", "", "", ""
	for l, lv := range d {
		for j, t := range lv {
			if ids[t.ID] {
				dup = fmt.Sprintf("table %d twice", t.ID)
			}
			ids[t.ID] = true
			if len(t.Entries) == 0 {
				tableBad = fmt.Sprintf("L%d table %d empty", l, t.ID)
				continue
			}
			for i := 1; i < len(t.Entries); i++ {
				if !entLess(t.Entries[i-1], t.Entries[i]) {
					tableBad = fmt.Sprintf("L%d table %d not strictly sorted at %d", l, t.ID, i)
				}
			}
			if l == 0 || j == 0 || len(lv[j-1].Entries) == 0 {
				continue
			}
			p := lv[j-1].Entries[len(lv[j-1].Entries)-1]
			s := t.Entries[0]
			if !entLess(p, s) {
				overlap = fmt.Sprintf("L%d tables %d,%d: biggest %x@%d !< smallest %x@%d", l, lv[j-1].ID, t.ID, p.Key, p.Version, s.Key, s.Version)
			} else if bytes.Equal(p.Key, s.Key) {
				split = fmt.Sprintf("L%d tables %d,%d both hold versions of key %x", l, lv[j-1].ID, t.ID, s.Key)
			}
		}
	}
	rp := J{"history": x.desc, "where": where}
	x.c.Oracle(dup == "", "c14-duplicate-table-id", "a table id occurs twice in the tree: "+dup, rp)
	x.c.Oracle(tableBad == "", "c14-table-empty-or-unsorted", "a table is empty or not strictly sorted: "+tableBad, rp)
	x.c.Oracle(overlap == "", "c14-level-tables-overlap-or-unsorted", "tables of a level below L0 overlap or are out of order: "+overlap, rp)
	x.c.Oracle(split == "", "c14-key-versions-split-across-tables", "versions of one key live in two tables of a level below L0: "+split, rp)
	x.emit("CheckWf", "check structure ("+where+")")
}

func (x *xh) checkManifest(where string) {
	fp, err := os.Open(filepath.Join(x.dir, "MANIFEST"))
	if err != nil {
		x.c.Oracle(false, "c14-manifest-unreadable", err.Error(), J{"history": x.desc, "where": where})
		return
	}
	mf, _, err := badger.ReplayManifestFile(fp, 0, badger.DefaultOptions(x.dir))
	fp.Close()
	if err != nil {
		x.c.Oracle(false, "c14-manifest-unreadable", err.Error(), J{"history": x.desc, "where": where})
		return
	}
	onDisk := map[uint64]bool{}
	names, _ := os.ReadDir(x.dir)
	for _, n := range names {
		if id, ok := table.ParseFileID(n.Name()); ok {
			onDisk[id] = true
		}
	}
	diff := ""
	for id := range mf.Tables {
		if !onDisk[id] {
			diff += fmt.Sprintf(" manifest table %d has no file;", id)
		}
	}
	for id := range onDisk {
		if _, ok := mf.Tables[id]; !ok {
			diff += fmt.Sprintf(" file %06d.sst is not in the manifest;", id)
		}
	}
	rp := J{"history": x.desc, "where": where}
	x.c.Oracle(diff == "", "c14-directory-tables-differ-from-manifest", "table files on disk differ from the MANIFEST:"+diff, rp)
	diff = ""
	open := map[uint64]int{}
	for _, ti := range x.db.Tables() {
		open[ti.ID] = ti.Level
	}
	for id, tm := range mf.Tables {
		if l, ok := open[id]; !ok {
			diff += fmt.Sprintf(" manifest table %d not open;", id)
		} else if l != int(tm.Level) {
			diff += fmt.Sprintf(" table %d open on L%d, manifest says L%d;", id, l, tm.Level)
		}
	}
	for id := range open {
		if _, ok := mf.Tables[id]; !ok {
			diff += fmt.Sprintf(" open table %d is not in the manifest;", id)
		}
	}
	x.c.Oracle(diff == "", "c14-open-tables-differ-from-manifest", "the tables the DB holds differ from the MANIFEST:"+diff, rp)
}

// ---- C11 ----
func (x *xh) maxStored() uint64 {
	var m uint64
	for _, lv := range x.db.VerifDump() {
		for _, t := range lv {
			for _, e := range t.Entries {
				if e.Version > m {
					m = e.Version
				}
			}
		}
	}
	mt, imm := x.db.VerifMemEntries()
	for _, e := range mt {
		if e.Version > m {
			m = e.Version
		}
	}
	for _, im := range imm {
		for _, e := range im {
			if e.Version > m {
				m = e.Version
			}
		}
	}
	return m
}

func (x *xh) commitChecked(t int, at uint64) {
	if x.o.Managed || len(x.tpend[t]) == 0 {
		x.commit(t, at)
		return
	}
	stored := x.maxStored()
	before := x.db.VerifNextTs()
	x.commit(t, at)
	after := x.db.VerifNextTs()
	if after == before {
		return // rejected (conflict)
	}
	cts := after - 1
	what := "commit timestamp not above every stored version"
	if x.firstCommit {
		what = "first commit after a re-open / DropAll: " + what
		x.c.Count("c11-first-commit-after-reopen-or-drop")
	}
	x.firstCommit = false
	x.c.Oracle(cts > stored, "c11-commit-ts-not-above-stored-version", fmt.Sprintf("%s (ts %d, stored max %d)", what, cts, stored), J{"history": x.desc})
}

// ---- close / re-open ----
func sameLines(a, b []string) (bool, string) {
	for i := 0; i < len(a) || i < len(b); i++ {
		var p, q string
		if i < len(a) {
			p = a[i]
		}
		if i < len(b) {
			q = b[i]
		}
		if p != q {
			return false, fmt.Sprintf("before: %q after: %q", p, q)
		}
	}
	return true, ""
}

func (x *xh) closeDB() error {
	t0 := time.Now()
	err := x.db.Close()
	xTime["close"] += time.Since(t0)
	x.db = nil
	x.c.Oracle(err == nil, "c07-close-error", fmt.Sprintf("Close failed: %v", err), J{"history": x.desc})
	if err != nil {
		return err
	}
	if x.ro {
		d := treeDiff(x.roHash, reopenTreeHash(x.dir))
		x.c.Oracle(len(d) == 0, "c07-readonly-open-modified-files", "a read-only session (Open, reads, Close) changed the file tree: "+strings.Join(d, "; "), J{"history": x.desc, "phase": "after-close"})
		x.ro = false
	}
	return nil
}

var xTime = map[string]time.Duration{}

func timed(name string) func() {
	t0 := time.Now()
	return func() { xTime[name] += time.Since(t0) }
}

func (x *xh) reopen(ro bool, variant int) error {
	defer timed("reopen")()
	// the transactions of this session end here
	for id, t := range x.txns {
		t.Discard()
		delete(x.txns, id)
		delete(x.tpend, id)
	}
	tss := x.sampleTs(5)
	pre := x.snapshot(tss)
	before := tableIDs(x.db.VerifDump())
	if err := x.closeDB(); err != nil {
		return err
	}
	if ro {
		x.roHash = reopenTreeHash(x.dir)
	}
	t0 := time.Now()
	db, err := openVariant(x.dir, x.o, ro, variant)
	xTime["open"] += time.Since(t0)
	if err != nil {
		if strings.Contains(err.Error(), "Level validation") {
			x.c.Oracle(false, "c14-open-validation-failed", "Open failed in the level validation: "+err.Error(), J{"history": x.desc})
		} else {
			x.c.Oracle(false, "c07-reopen-error", fmt.Sprintf("Open (ro=%v variant=%d) failed: %v", ro, variant, err), J{"history": x.desc})
		}
		return err
	}
	x.c.Oracle(true, "c14-open-validation-failed", "", nil)
	x.db, x.ro, x.variant = db, ro, variant
	post := x.snapshot(tss)
	same, d := sameLines(pre, post)
	x.c.Oracle(same, "c07-read-differs-after-reopen", "a read differs between just before Close and after Open: "+d, J{"history": x.desc, "ro": ro, "variant": variant})
	if ro {
		dd := treeDiff(x.roHash, reopenTreeHash(x.dir))
		x.c.Oracle(len(dd) == 0, "c07-readonly-open-modified-files", "a read-only Open plus reads changed the file tree: "+strings.Join(dd, "; "), J{"history": x.desc, "phase": "open"})
		x.nRO++
	}
	x.nReopen++
	x.firstCommit = true
	// the label: tables the close created, nextTxnTs, the tree as opened
	after := x.db.VerifDump()
	var ids []uint64
	for _, t := range after[0] {
		if _, ok := before[t.ID]; !ok {
			ids = append(ids, t.ID)
		}
	}
	sort.Slice(ids, func(i, j int) bool { return ids[i] < ids[j] })
	lv := make([]string, len(after))
	for i, l := range after {
		ts := make([]string, len(l))
		for j, t := range l {
			es := make([]string, len(t.Entries))
			for k, e := range t.Entries {
				es[k] = vEntTerm(e)
			}
			ts[j] = fmt.Sprintf("(%d, %s)", t.ID, ListOf(es))
		}
		lv[i] = ListOf(ts)
	}
	x.emit(fmt.Sprintf("(Reopen %s %s %d %s)", Bool(ro), idList(ids), x.db.VerifNextTs(), ListOf(lv)),
		fmt.Sprintf("close; reopen ro=%v variant=%d -> flushed %v next=%d", ro, variant, ids, x.db.VerifNextTs()))
	x.checkManifest("after-open")
	x.checkStructure("after-open")
	return nil
}

func (x *xh) dropAll() error {
	defer timed("dropall")()
	var ids []int
	for id := range x.txns {
		ids = append(ids, id)
	}
	sort.Ints(ids)
	for _, id := range ids {
		x.discard(id)
	}
	if err := x.db.DropAll(); err != nil {
		x.c.Oracle(false, "c29-dropall-error", err.Error(), J{"history": x.desc})
		return err
	}
	x.ref = nil
	x.nDrop++
	x.firstCommit = true
	x.emit(fmt.Sprintf("(DropAll %d)", x.db.VerifNextTs()), fmt.Sprintf("dropAll -> next=%d", x.db.VerifNextTs()))
	x.dump()
	x.checkManifest("after-dropall")
	return nil
}

// ---- generator ----
type rprofile struct {
	profile
	wReopen, wReopenRO, wDropAll, wGetAt int
	maxReopen                            int
	checkEvery                           bool // structure check after every flush / compaction
}

func runReopenHistory(c *Ctx, p *rprofile) (*xh, error) {
	o := sysOpts{Managed: p.managed, Detect: p.detect, NKeep: p.nkeeps[c.Rng.Intn(len(p.nkeeps))], MaxLevels: 4,
		VThreshold: 32, TableSize: int64(256) << uint(c.Rng.Intn(5)), BaseLevelSize: []int64{200, 600, 2 << 10, 8 << 10}[c.Rng.Intn(4)]}
	o.MemSize = p.memSize
	h, err := newHist(c, o)
	if err != nil {
		return nil, err
	}
	x := &xh{hist: h, keys: p.keys}
	defer h.close()
	nextT := 0
	var mts uint64 = 1
	var discardTs uint64
	open := func() []int {
		var ids []int
		for id := range h.txns {
			ids = append(ids, id)
		}
		sort.Ints(ids)
		return ids
	}
	type wop struct {
		w    int
		name string
	}
	ws := []wop{{p.wBegin, "begin"}, {p.wModify, "modify"}, {p.wGet, "get"}, {p.wIter, "iter"}, {p.wCommit, "commit"}, {p.wDiscard, "discard"},
		{p.wFlush, "flush"}, {p.wCompact, "compact"}, {p.wL0L0, "l0l0"}, {p.wDump, "dump"}, {p.wSetDiscard, "setdiscard"}, {p.wMaxVersion, "maxversion"},
		{p.wBatch, "batch"}, {p.wReopen, "reopen"}, {p.wReopenRO, "reopen-ro"}, {p.wDropAll, "dropall"}, {p.wGetAt, "getat"}}
	total := 0
	for _, w := range ws {
		total += w.w
	}
	for step := 0; step < p.nOps; step++ {
		r := c.Rng.Intn(total)
		name := ""
		for _, w := range ws {
			if r < w.w {
				name = w.name
				break
			}
			r -= w.w
		}
		ids := open()
		pick := func() int { return ids[c.Rng.Intn(len(ids))] }
		if len(ids) == 0 && (name == "modify" || name == "get" || name == "iter" || name == "commit" || name == "discard") {
			name = "begin"
		}
		if x.ro {
			switch name {
			case "flush", "compact", "l0l0", "setdiscard", "batch", "dropall":
				// impossible on a read-only DB: leave read-only mode instead, now and then
				if c.Rng.Intn(3) != 0 {
					continue
				}
				name = "reopen"
			}
		}
		switch name {
		case "begin":
			if len(ids) >= 3 {
				continue
			}
			upd := c.Rng.Intn(4) != 0
			at := uint64(0)
			if p.managed {
				at = discardTs + uint64(c.Rng.Intn(int(mts-discardTs)+3))
			}
			h.begin(nextT, upd, at)
			if x.ro {
				h.tupd[nextT] = false // DB.newTransaction forces a read-only transaction
			}
			nextT++
		case "modify":
			t := pick()
			k := c.pickKey(&p.profile)
			meta, umeta, exp := byte(0), byte(c.Rng.Intn(3)), uint64(0)
			switch c.Rng.Intn(8) {
			case 0, 1:
				meta = mDelete
			case 2:
				if p.discardBit {
					meta = mDiscard
				}
			case 3:
				if p.expiry {
					if c.Rng.Intn(2) == 0 {
						exp = 1
					} else {
						exp = 1 << 40
					}
				}
			}
			h.modify(t, k, c.value(&p.profile), meta, umeta, exp)
		case "get":
			h.get(pick(), c.pickKey(&p.profile))
		case "iter":
			t := pick()
			io := itOpts{Prefetch: c.Rng.Intn(2) == 0, PrefetchSize: c.Rng.Intn(4)}
			if p.reverse && c.Rng.Intn(3) == 0 {
				io.Reverse = true
			}
			if p.allVersions && c.Rng.Intn(3) == 0 {
				io.All = true
			}
			h.iterate(t, io, nil)
		case "commit":
			t := pick()
			at := uint64(0)
			if p.managed {
				mts += 1 + uint64(c.Rng.Intn(2)) // strictly increasing: no key@version is written twice
				at = mts
			}
			x.commitChecked(t, at)
		case "discard":
			h.discard(pick())
		case "flush":
			if err := h.flush(); err != nil {
				return x, err
			}
			if p.checkEvery {
				x.checkStructure("after-flush")
			}
		case "compact", "l0l0":
			lvl := 0
			if name == "compact" && c.Rng.Intn(2) == 0 {
				d := h.db.VerifDump()
				var ne []int
				for l := range d {
					if len(d[l]) > 0 {
						ne = append(ne, l)
					}
				}
				if len(ne) > 0 {
					lvl = ne[c.Rng.Intn(len(ne))]
				}
			}
			ran, err := h.compact(lvl, name == "l0l0", nil)
			if err != nil {
				return x, fmt.Errorf("compact: %w", err)
			}
			if ran {
				if c.Rng.Intn(2) == 0 {
					h.dump()
				}
				if p.checkEvery {
					x.checkStructure("after-compaction")
					x.checkManifest("after-compaction")
				}
			}
		case "dump":
			h.dump()
		case "setdiscard":
			if p.managed {
				lim := mts
				for _, id := range ids {
					if rt := h.txns[id].VerifReadTs(); rt < lim {
						lim = rt
					}
				}
				if lim > discardTs {
					discardTs += uint64(c.Rng.Intn(int(lim-discardTs) + 1))
					h.setDiscard(discardTs)
				}
			}
		case "maxversion":
			h.maxVersion()
		case "batch":
			n := 1 + c.Rng.Intn(12)
			kind := 0
			var bts uint64
			if p.managed {
				kind = 1
				mts += 1 + uint64(c.Rng.Intn(2))
				bts = mts
			}
			var calls []batchCall
			for j := 0; j < n; j++ {
				calls = append(calls, batchCall{Key: c.pickKey(&p.profile), Val: c.value(&p.profile), UMeta: byte(c.Rng.Intn(3)), Del: c.Rng.Intn(5) == 0})
			}
			nextT = h.batch(nextT, kind, bts, calls)
			x.firstCommit = false
		case "reopen", "reopen-ro":
			if x.nReopen >= p.maxReopen && !(x.ro && x.nReopen < p.maxReopen+2) {
				continue // each close / open cycle costs several hundred ms
			}
			if err := x.reopen(name == "reopen-ro", c.Rng.Intn(5)); err != nil {
				return x, err
			}
			discardTs = 0 // a new oracle: SetDiscardTs starts again from 0
			c.Count(fmt.Sprintf("reopen ro=%v variant=%d", x.ro, x.variant))
			// reads of the new session, as labels for the model
			x.someGetAts(6)
			at := uint64(0)
			if p.managed {
				at = mts + 1
			}
			h.begin(nextT, c.Rng.Intn(2) == 0, at)
			if x.ro {
				h.tupd[nextT] = false
			}
			for _, k := range x.universe() {
				h.get(nextT, k)
			}
			h.iterate(nextT, itOpts{All: true}, nil)
			if x.ro && c.Rng.Intn(2) == 0 {
				h.modify(nextT, c.pickKey(&p.profile), []byte("x"), 0, 0, 0) // ErrReadOnlyTxn
			}
			if c.Rng.Intn(2) == 0 {
				h.discard(nextT)
			}
			nextT++
		case "dropall":
			if x.nDrop >= 2 {
				continue
			}
			if err := x.dropAll(); err != nil {
				return x, err
			}
			c.Count("dropall")
		case "getat":
			x.someGetAts(2)
		}
	}
	// final reads of every key by a fresh transaction, a dump, the structure, one more cycle
	at := uint64(0)
	if p.managed {
		at = mts + 1
	}
	h.begin(nextT, false, at)
	for _, k := range p.keys {
		h.get(nextT, k)
	}
	h.iterate(nextT, itOpts{}, nil)
	h.iterate(nextT, itOpts{Reverse: true}, nil)
	h.discard(nextT)
	nextT++
	h.dump()
	x.checkStructure("end")
	x.checkManifest("end")
	if err := x.reopen(c.Rng.Intn(3) == 0, c.Rng.Intn(5)); err != nil {
		return x, err
	}
	x.someGetAts(4)
	if !x.ro {
		// the first commit of the last session
		h.begin(nextT, true, at)
		h.modify(nextT, c.pickKey(&p.profile), []byte("last"), 0, 0, 0)
		if p.managed {
			mts++
		}
		x.commitChecked(nextT, mts)
		nextT++
		h.begin(nextT, false, mts)
		for _, k := range p.keys {
			h.get(nextT, k)
		}
		h.discard(nextT)
		h.maxVersion()
	}
	for id, t := range x.txns {
		t.Discard()
		delete(x.txns, id)
	}
	if err := x.closeDB(); err != nil { // ends a read-only session with the file-tree comparison
		return x, err
	}
	return x, nil
}

// scenarioL0Order: an L0->L0 compaction that leaves the newest table out puts its output (a
// higher file id, older data) wherever the smallest key sorts it (levelHandler.replaceTables);
// Open then orders level 0 by file id (levelHandler.initTables).  Deterministic, so that every
// run exercises the re-ordering at Open.
func scenarioL0Order(c *Ctx) (*xh, error) {
	h, err := newHist(c, sysOpts{Detect: true, NKeep: 1, MaxLevels: 4, VThreshold: 32, TableSize: 1 << 20, BaseLevelSize: 8 << 10})
	if err != nil {
		return nil, err
	}
	x := &xh{hist: h, keys: [][]byte{[]byte("m"), []byte("n"), []byte("o"), []byte("p"), []byte("z")}}
	defer h.close()
	for i, k := range x.keys[:4] {
		h.commit1(i, k, []byte{byte('0' + i)})
		if err := h.flush(); err != nil {
			return x, err
		}
	}
	// the newest table (smallest key "n") is too young for the picker: it stays, and the output
	// of the compaction (smallest key "m", higher file id) is sorted in front of it
	h.commit1(4, []byte("z"), []byte("new"), []byte("n"), []byte("newer"))
	if err := h.flush(); err != nil {
		return x, err
	}
	ids := h.l0IDs()
	newest := ids[len(ids)-1]
	h.backdate = func(id uint64) bool { return id != newest }
	ok, err := h.compact(0, true, nil)
	if err != nil || !ok {
		return x, fmt.Errorf("scenario l0-order: L0->L0 compaction did not run (%v)", err)
	}
	h.dump()
	after := h.l0IDs()
	c.Extra["scenario_l0_order_in_session"] = fmt.Sprint(after)
	x.checkStructure("after-compaction")
	if err := x.reopen(false, 0); err != nil {
		return x, err
	}
	c.Extra["scenario_l0_order_after_open"] = fmt.Sprint(h.l0IDs())
	x.someGetAts(6)
	h.begin(10, false, 0)
	for _, k := range x.keys {
		h.get(10, k)
	}
	h.iterate(10, itOpts{All: true}, nil)
	h.discard(10)
	if err := x.reopen(true, 1); err != nil {
		return x, err
	}
	x.someGetAts(4)
	if err := x.closeDB(); err != nil {
		return x, err
	}
	return x, nil
}

// scenarioMarkerOnTop: the newest versions in the database are delete markers (and a
// discard-earlier entry) that a compaction has rewritten and KEPT (they are above the discard
// timestamp: nobody has read since); the tables' MaxVersion must cover them, so that after a clean
// close and re-open the next commit timestamp lies above them and new commits are visible.
func scenarioMarkerOnTop(c *Ctx) (*xh, error) {
	h, err := newHist(c, sysOpts{Detect: true, NKeep: 1, MaxLevels: 4, VThreshold: 32, TableSize: 1 << 20, BaseLevelSize: 8 << 10})
	if err != nil {
		return nil, err
	}
	x := &xh{hist: h, keys: [][]byte{[]byte("a"), []byte("b"), []byte("c"), []byte("d")}}
	defer h.close()
	h.commit1(0, []byte("a"), []byte("va"), []byte("b"), []byte("vb"))
	h.commit1(1, []byte("c"), []byte("vc"))
	// no reader from here on: the read watermark (= discard timestamp) stays below these
	h.begin(2, true, 0)
	h.modify(2, []byte("a"), nil, mDelete, 0, 0)
	h.commit(2, 0)
	h.begin(3, true, 0)
	h.modify(3, []byte("b"), nil, mDelete, 0, 0)
	h.commit(3, 0)
	h.begin(4, true, 0)
	h.modify(4, []byte("c"), []byte("vc2"), mDiscard, 0, 0)
	h.commit(4, 0)
	if err := h.flush(); err != nil {
		return x, err
	}
	if ok, err := h.compact(0, false, nil); err != nil || !ok {
		return x, fmt.Errorf("scenario marker-on-top: compaction did not run (%v)", err)
	}
	h.dump()
	if err := x.reopen(false, 0); err != nil {
		return x, err
	}
	h.begin(10, true, 0)
	h.modify(10, []byte("d"), []byte("after-reopen"), 0, 0, 0)
	h.modify(10, []byte("a"), []byte("again"), 0, 0, 0)
	x.commitChecked(10, 0)
	h.begin(11, false, 0)
	for _, k := range x.keys {
		h.get(11, k)
	}
	h.discard(11)
	x.someGetAts(4)
	if err := x.closeDB(); err != nil {
		return x, err
	}
	return x, nil
}

// scenarioMaxKeyReopen (oracle only: 65000-byte keys are not put into Coq case files): keys at and
// just below the maximum key size, with values in the value log and inline, must read back after a
// clean close and a read-write re-open (the log replay's sanity bound on key lengths must admit
// every key the API accepts), also after a second re-open and after new writes.
func scenarioMaxKeyReopen(c *Ctx) error {
	dir := filepath.Join(os.Getenv("VERIF_SCRATCH_DIR"), "maxkey")
	os.RemoveAll(dir)
	defer os.RemoveAll(dir)
	o := sysOpts{NKeep: 1, MaxLevels: 4, VThreshold: 32, TableSize: 1 << 20, BaseLevelSize: 8 << 10, MemSize: 4 << 20}
	db, err := openSysDB(dir, o)
	if err != nil {
		return err
	}
	want := map[string][]byte{}
	mk := func(n int, tag byte) []byte {
		k := bytes.Repeat([]byte{tag}, n)
		copy(k, fmt.Sprintf("max-%d-", n))
		return k
	}
	i := 0
	for _, n := range []int{65000, 64999, 64993, 64992, 64000, 10} {
		for _, vl := range []int{200, 5} {
			k := mk(n, byte('a'+i))
			v := bytes.Repeat([]byte{byte('0' + i)}, vl)
			i++
			if err := db.Update(func(tx *badger.Txn) error { return tx.Set(k, v) }); err != nil {
				c.Oracle(false, "c07-max-size-key-rejected", "a key of at most 65000 bytes was rejected: "+err.Error(), J{"len": n})
				continue
			}
			want[string(k)] = v
		}
	}
	check := func(db *badger.DB, where string) {
		var bad []string
		db.View(func(tx *badger.Txn) error {
			for k, v := range want {
				it, err := tx.Get([]byte(k))
				if err != nil {
					bad = append(bad, fmt.Sprintf("key of %d bytes: %v", len(k), err))
					continue
				}
				got, err := it.ValueCopy(nil)
				if err != nil || !bytes.Equal(got, v) {
					bad = append(bad, fmt.Sprintf("key of %d bytes: value of %d bytes read back as %d bytes (err %v)", len(k), len(v), len(got), err))
				}
			}
			return nil
		})
		sort.Strings(bad)
		if len(bad) > 5 {
			bad = bad[:5]
		}
		c.Oracle(len(bad) == 0, "c07-max-size-key-value-differs-"+where, "a value stored under a key near the maximum key size reads back differently "+where, J{"mismatches": bad})
	}
	check(db, "before-close")
	for round := 0; round < 2; round++ {
		if err := db.Close(); err != nil {
			return err
		}
		db, err = openSysDB(dir, o)
		if err != nil {
			c.Oracle(false, "c07-reopen-fails-with-max-size-keys", err.Error(), J{"round": round})
			return nil
		}
		check(db, "after-reopen")
		k := mk(65000-round, byte('q'+round))
		v := bytes.Repeat([]byte{'z'}, 300)
		if db.Update(func(tx *badger.Txn) error { return tx.Set(k, v) }) == nil {
			want[string(k)] = v
		}
	}
	check(db, "after-second-reopen")
	c.Count("max-key-reopen-scenario")
	return db.Close()
}

func runReopenProfile(c *Ctx, mk func(i int) *rprofile) error {
	c.Setup("Keys Spec Lsm Compact Iter Sys SysReopen CorrReopen", "run_case")
	if c.Prop == "C07" {
		if err := scenarioMaxKeyReopen(c); err != nil {
			return err
		}
	}
	if sx, err := scenarioMarkerOnTop(c); err != nil {
		if sx != nil {
			c.Oracle(false, "harness-error:scenario-marker-on-top", err.Error(), J{"history": sx.desc})
		}
		return err
	} else {
		c.Case("scenario-marker-on-top", sx.term(), histInput(sx.hist))
	}
	if sx, err := scenarioL0Order(c); err != nil {
		if sx != nil {
			c.Oracle(false, "harness-error:scenario-l0-order", err.Error(), J{"history": sx.desc})
		}
		return err
	} else {
		c.Case("scenario-l0-order", sx.term(), histInput(sx.hist))
	}
	t0 := time.Now()
	defer func() {
		xTime["total"] = time.Since(t0)
		for k, v := range xTime {
			c.Extra["seconds_"+k] = math.Round(v.Seconds()*10) / 10
		}
	}()
	for i := 0; c.nCases < c.N; i++ {
		p := mk(i)
		x, err := runReopenHistory(c, p)
		if err != nil {
			if x != nil {
				c.Oracle(false, "harness-error:"+p.name, err.Error(), J{"history": x.desc})
				c.Case(p.name+"-error", x.term(), histInput(x.hist))
			}
			return err
		}
		c.Case(p.name, x.term(), histInput(x.hist))
		c.Count(fmt.Sprintf("compactions=%d", min(x.nCompact, 5)))
		c.Count(fmt.Sprintf("flushes=%d", min(x.nFlush, 5)))
		c.Count(fmt.Sprintf("reopens=%d", min(x.nReopen, 5)))
		c.Count(fmt.Sprintf("ro-sessions=%d", min(x.nRO, 3)))
		c.Count(fmt.Sprintf("dropalls=%d", min(x.nDrop, 3)))
	}
	return nil
}

func init() {
	// C07: content across close / re-open, read-only sessions
	register("C07", func(c *Ctx) error {
		return runReopenProfile(c, func(i int) *rprofile {
			p := &rprofile{profile: profile{name: "reopen", wBegin: 5, wModify: 14, wGet: 5, wIter: 3, wCommit: 8, wDiscard: 1, wFlush: 4, wCompact: 4, wL0L0: 1, wDump: 1, wBatch: 1, wMaxVersion: 1,
				nOps: 40 + c.Rng.Intn(50), keys: keySetA[:3+c.Rng.Intn(8)], allVersions: true, reverse: true, expiry: true, discardBit: true,
				nkeeps: []int{1, 2, 100}, detect: i%2 == 0, bigValues: i%2 == 1},
				wReopen: 3, wReopenRO: 2, wGetAt: 2, maxReopen: 2 + i%2}
			if i%3 == 2 {
				p.managed, p.monotone, p.wSetDiscard = true, true, 2
			}
			return p
		})
	})
	// C11: timestamps after re-open and DropAll
	register("C11", func(c *Ctx) error {
		// part 2 first (c11wal.go): crash + re-open with WALs in arbitrary version order; its
		// cases have their own Coq entry point, so they get their own shards
		if err := runC11LoadOracle(c); err != nil {
			return err
		}
		if err := runC11Wal(c, 30+c.N/2); err != nil {
			return err
		}
		c.closeShard()
		c.N += c.nCases
		return runReopenProfile(c, func(i int) *rprofile {
			p := &rprofile{profile: profile{name: "next-ts", wBegin: 5, wModify: 12, wGet: 3, wIter: 1, wCommit: 10, wDiscard: 1, wFlush: 4, wCompact: 4, wL0L0: 1, wBatch: 2, wMaxVersion: 2,
				nOps: 40 + c.Rng.Intn(40), keys: keySetA[:2+c.Rng.Intn(5)], allVersions: true, expiry: true, discardBit: true,
				nkeeps: []int{1, 2}, detect: i%2 == 0},
				wReopen: 4, wReopenRO: 1, wDropAll: 2, wGetAt: 1, maxReopen: 2}
			if i%6 == 5 {
				p.managed, p.monotone = true, true // correspondence of Open's nextTxnTs only: the commit timestamp is the caller's
			}
			return p
		})
	})
	// C14: structure of the levels and the MANIFEST: many small tables, deep compactions
	register("C14", func(c *Ctx) error {
		if err := runC14LmaxCompaction(c); err != nil {
			return err
		}
		return runReopenProfile(c, func(i int) *rprofile {
			p := &rprofile{profile: profile{name: "structure", wBegin: 4, wModify: 16, wGet: 2, wIter: 1, wCommit: 8, wDiscard: 1, wFlush: 8, wCompact: 10, wL0L0: 2, wDump: 1, wBatch: 4,
				nOps: 70 + c.Rng.Intn(60), keys: keySetA[:4+c.Rng.Intn(8)], allVersions: true, expiry: true, discardBit: true,
				nkeeps: []int{1, 2, 3, 100}, detect: false, bigValues: i%3 == 0},
				wReopen: 2, wReopenRO: 1, wDropAll: 1, checkEvery: true, maxReopen: 1 + i%2}
			if i%4 == 1 {
				p.wFlush, p.wL0L0, p.wCompact, p.wModify, p.wCommit = 20, 8, 1, 20, 12
			}
			if i%5 == 4 {
				p.managed, p.monotone, p.wSetDiscard = true, true, 3
			}
			return p
		})
	})
}
