package main

// C21 — merged iteration yields the sorted union with earliest-source precedence.
// Correspondence: table.NewMergeIterator over real child iterators (skiplist UniIterator,
// in-memory table Iterator, ConcatIterator over several in-memory tables, and a slice-backed
// y.Iterator used for malformed inputs: unsorted runs, duplicate keys inside a run, keys shorter
// than 8 bytes), forward and reverse, random interleavings of Next / Rewind / Seek; the observable
// after every call (Valid, Key, Value — or the panic) is compared with the model.
// Property oracle (independent of the model): Rewind + Next* and Seek(k) + Next* equal a
// reference sorted union with first-input-wins computed directly in Go.

import (
	"bytes"
	"fmt"
	"sort"

	"github.com/dgraph-io/badger/v4/options"
	"github.com/dgraph-io/badger/v4/skl"
	"github.com/dgraph-io/badger/v4/table"
	"github.com/dgraph-io/badger/v4/y"
)

func init() { register("C21", runC21) }

type c21kv struct{ k, v []byte }

// sliceIter: the model's abstract child cursor, written out in Go (y.Iterator).
type sliceIter struct {
	seq []c21kv // iteration order
	pos int
	rev bool
}

func newSliceIter(asc []c21kv, rev bool) *sliceIter {
	seq := append([]c21kv{}, asc...)
	if rev {
		for i, j := 0, len(seq)-1; i < j; i, j = i+1, j-1 {
			seq[i], seq[j] = seq[j], seq[i]
		}
	}
	return &sliceIter{seq: seq, pos: len(seq), rev: rev}
}
func (s *sliceIter) Next() {
	if s.pos < len(s.seq) {
		s.pos++
	}
}
func (s *sliceIter) Rewind() { s.pos = 0 }
func (s *sliceIter) Seek(key []byte) {
	for s.pos = 0; s.pos < len(s.seq); s.pos++ {
		c := y.CompareKeys(s.seq[s.pos].k, key)
		if !((c < 0 && !s.rev) || (c > 0 && s.rev)) {
			return
		}
	}
}
func (s *sliceIter) Key() []byte { return s.seq[s.pos].k }
func (s *sliceIter) Value() y.ValueStruct {
	v := s.seq[s.pos].v
	return y.ValueStruct{Meta: v[0], UserMeta: v[1], Value: v[2:]}
}
func (s *sliceIter) Valid() bool  { return s.pos < len(s.seq) }
func (s *sliceIter) Close() error { return nil }

func c21vs(v []byte) y.ValueStruct { return y.ValueStruct{Meta: v[0], UserMeta: v[1], Value: v[2:]} }
func c21val(vs y.ValueStruct) []byte {
	return append([]byte{vs.Meta, vs.UserMeta}, vs.Value...)
}

func c21Table(run []c21kv, id uint64) (*table.Table, error) {
	opts := table.Options{BlockSize: 64, BloomFalsePositive: 0.01, TableSize: 1 << 20, Compression: options.None}
	b := table.NewTableBuilder(opts)
	defer b.Close()
	for _, e := range run {
		b.Add(e.k, c21vs(e.v), 0)
	}
	return table.OpenInMemoryTable(b.Finish(), id, &opts)
}

// child iterator over one sorted run; kind: 0 skiplist, 1 table, 2 concat of tables, 3 slice
func c21Child(c *Ctx, run []c21kv, rev bool, kind int, id *uint64) (y.Iterator, string, error) {
	if len(run) == 0 && (kind == 1) {
		kind = 0
	}
	switch kind {
	case 0:
		s := skl.NewSkiplist(1 << 16)
		for _, e := range run {
			s.Put(e.k, c21vs(e.v))
		}
		return s.NewUniIterator(rev), "skl", nil
	case 1:
		*id++
		t, err := c21Table(run, *id)
		if err != nil {
			return nil, "", err
		}
		opt := table.NOCACHE
		if rev {
			opt |= table.REVERSED
		}
		return t.NewIterator(opt), "table", nil
	case 2:
		var tbls []*table.Table
		for i := 0; i < len(run); {
			n := 1 + c.Rng.Intn(3)
			if i+n > len(run) {
				n = len(run) - i
			}
			*id++
			t, err := c21Table(run[i:i+n], *id)
			if err != nil {
				return nil, "", err
			}
			tbls = append(tbls, t)
			i += n
		}
		opt := table.NOCACHE
		if rev {
			opt |= table.REVERSED
		}
		return table.NewConcatIterator(tbls, opt), "concat", nil
	}
	return newSliceIter(run, rev), "slice", nil
}

type c21obs struct {
	panicked bool
	valid    bool
	k, v     []byte
}

func c21Observe(it y.Iterator) (o c21obs) {
	o.valid = it.Valid()
	if o.valid {
		o.k = append([]byte{}, it.Key()...)
		o.v = c21val(it.Value())
	}
	return o
}

// (i, j) such that inputs[i][j] is the observed entry (values are unique over all inputs)
func c21Locate(inputs [][]c21kv, o c21obs) string {
	for i, run := range inputs {
		for j, e := range run {
			if bytes.Equal(e.k, o.k) && bytes.Equal(e.v, o.v) {
				return fmt.Sprintf("(Some (Some (%d, %d)))", i, j)
			}
		}
	}
	return "(Some (Some (999, 999)))"
}

func c21ObsTerm(inputs [][]c21kv, o c21obs) string {
	if o.panicked {
		return "None"
	}
	if !o.valid {
		return "(Some None)"
	}
	return c21Locate(inputs, o)
}

// reference: sorted union, first input wins; forward or reverse
func c21Reference(inputs [][]c21kv, rev bool) []c21kv {
	seen := map[string]bool{}
	var out []c21kv
	for _, run := range inputs {
		for _, e := range run {
			if !seen[string(e.k)] {
				seen[string(e.k)] = true
				out = append(out, e)
			}
		}
	}
	sort.Slice(out, func(a, b int) bool {
		c := y.CompareKeys(out[a].k, out[b].k)
		if rev {
			return c > 0
		}
		return c < 0
	})
	return out
}

func c21Drain(it y.Iterator, max int) []c21kv {
	var out []c21kv
	for ; it.Valid() && len(out) <= max; it.Next() {
		out = append(out, c21kv{append([]byte{}, it.Key()...), c21val(it.Value())})
	}
	return out
}

func c21Equal(a, b []c21kv) bool {
	if len(a) != len(b) {
		return false
	}
	for i := range a {
		if !bytes.Equal(a[i].k, b[i].k) || !bytes.Equal(a[i].v, b[i].v) {
			return false
		}
	}
	return true
}

func c21InputsJSON(inputs [][]c21kv) interface{} {
	out := make([][][2]string, len(inputs))
	for i, run := range inputs {
		out[i] = make([][2]string, len(run))
		for j, e := range run {
			out[i][j] = [2]string{fmt.Sprintf("%x", e.k), fmt.Sprintf("%x", e.v)}
		}
	}
	return out
}

func c21InputsTerm(inputs [][]c21kv) string {
	runs := make([]string, len(inputs))
	for i, run := range inputs {
		es := make([]string, len(run))
		for j, e := range run {
			es[j] = fmt.Sprintf("(%s, %s)", B(e.k), B(e.v))
		}
		runs[i] = ListOf(es)
	}
	return ListOf(runs)
}

func runC21(c *Ctx) error {
	c.Setup("Keys MergeIter CorrC21", "run_case")
	type J = map[string]interface{}
	var tblID uint64
	for i := 0; c.nCases < c.N; i++ {
		rev := c.Rng.Intn(2) == 0
		// ---- key universe: few user keys x few versions, sorted by CompareKeys ----
		nu := 1 + c.Rng.Intn(5)
		var universe [][]byte
		seenK := map[string]bool{}
		for u := 0; u < nu; u++ {
			uk := []byte{[]byte("abz\x00\xff")[c.Rng.Intn(5)]}
			if c.Rng.Intn(3) == 0 {
				uk = append(uk, []byte("ab\x00")[c.Rng.Intn(3)])
			}
			nv := 1 + c.Rng.Intn(3)
			for v := 0; v < nv; v++ {
				ts := uint64(c.Rng.Intn(6))
				if c.Rng.Intn(12) == 0 {
					ts = c.u64()
				}
				k := y.KeyWithTs(uk, ts)
				if !seenK[string(k)] {
					seenK[string(k)] = true
					universe = append(universe, k)
				}
			}
		}
		sort.Slice(universe, func(a, b int) bool { return y.CompareKeys(universe[a], universe[b]) < 0 })
		// ---- inputs ----
		n := []int{0, 1, 2, 2, 2, 3, 3, 3, 4, 4, 5, 5, 6, 7, 8, 9, 12}[c.Rng.Intn(17)]
		malformed := i%9 == 8 && n >= 1
		inputs := make([][]c21kv, n)
		valID := 0
		for a := 0; a < n; a++ {
			p := []float64{0, 0.3, 0.6, 0.9, 1}[c.Rng.Intn(5)]
			for _, k := range universe {
				if c.Rng.Float64() < p {
					valID++
					inputs[a] = append(inputs[a], c21kv{k, []byte{byte(a), byte(c.Rng.Intn(3)), byte(valID >> 8), byte(valID)}})
				}
			}
		}
		shortKey := false
		if malformed {
			// damage one or two runs: swap two entries (unsorted), duplicate a key inside a run,
			// or put a key shorter than 8 bytes (CompareKeys panics)
			for d := 0; d < 1+c.Rng.Intn(2); d++ {
				a := c.Rng.Intn(n)
				run := inputs[a]
				switch c.Rng.Intn(3) {
				case 0:
					if len(run) >= 2 {
						x, z := c.Rng.Intn(len(run)), c.Rng.Intn(len(run))
						run[x], run[z] = run[z], run[x]
					}
				case 1:
					if len(run) >= 1 {
						x := c.Rng.Intn(len(run))
						valID++
						e := c21kv{run[x].k, []byte{byte(a), 9, byte(valID >> 8), byte(valID)}}
						run = append(run[:x+1], append([]c21kv{e}, run[x+1:]...)...)
					}
				case 2:
					valID++
					e := c21kv{c.rawBytes(7), []byte{byte(a), 8, byte(valID >> 8), byte(valID)}}
					x := 0
					if len(run) > 0 {
						x = c.Rng.Intn(len(run) + 1)
					}
					run = append(run[:x], append([]c21kv{e}, run[x:]...)...)
					shortKey = true
				}
				inputs[a] = run
			}
		}
		_ = shortKey
		// ---- children ----
		kindSel := c.Rng.Intn(6) // 0 skl, 1 table, 2 concat, 3 slice, 4/5 mixed
		iters := make([]y.Iterator, n)
		kinds := map[string]int{}
		var err error
		for a := 0; a < n; a++ {
			kind := kindSel
			if kindSel >= 4 {
				kind = c.Rng.Intn(4)
			}
			if malformed {
				kind = 3
			}
			var name string
			iters[a], name, err = c21Child(c, inputs[a], rev, kind, &tblID)
			if err != nil {
				return fmt.Errorf("building child: %v", err)
			}
			kinds[name]++
		}
		for name := range kinds {
			c.Count("child-" + name)
		}
		mi := table.NewMergeIterator(iters, rev)
		if n == 0 {
			c.Case("MergeNil", fmt.Sprintf("(MergeNil %s %s)", Bool(rev), Bool(mi == nil)), J{"rev": rev, "n": 0, "i": i})
			c.Oracle(mi == nil, "merge-nil", "NewMergeIterator(nil) is not nil", J{})
			continue
		}
		// ---- operations ----
		seekKey := func() []byte {
			switch c.Rng.Intn(8) {
			case 0:
				return y.KeyWithTs([]byte{0}, 0) // (almost) below everything
			case 1:
				return y.KeyWithTs([]byte{0xff, 0xff, 0xff}, 0) // above everything
			case 2:
				if len(universe) > 0 { // same user key, another version
					return y.KeyWithTs(y.ParseKey(universe[c.Rng.Intn(len(universe))]), uint64(c.Rng.Intn(8)))
				}
			case 3:
				if malformed && c.Rng.Intn(2) == 0 {
					return c.rawBytes(7) // short target: CompareKeys panics
				}
			}
			if len(universe) == 0 {
				return y.KeyWithTs([]byte("m"), 1)
			}
			return universe[c.Rng.Intn(len(universe))]
		}
		type stepT struct {
			op  string
			key []byte
			o   c21obs
		}
		var steps []stepT
		obs0 := "None"
		if n >= 2 {
			o := c21Observe(mi)
			if o.valid {
				obs0 = c21Locate(inputs, o)
				obs0 = "(Some (0, 0))" // a fresh MergeIterator must not be valid: force a mismatch
			}
		}
		fullDrain := i%3 == 0
		nops := 4 + c.Rng.Intn(20)
		total := 0
		for _, run := range inputs {
			total += len(run)
		}
		if fullDrain {
			nops = total + 2
			if nops > 26 {
				nops = 26
			}
		}
		panicked := false
		for s := 0; s < nops && !panicked; s++ {
			var st stepT
			r := c.Rng.Intn(100)
			switch {
			case fullDrain && s == 0:
				if c.Rng.Intn(3) == 0 {
					st.op, st.key = "seek", seekKey()
				} else {
					st.op = "rewind"
				}
			case fullDrain:
				st.op = "next"
			case s == 0 && r < 80:
				st.op = "rewind"
			case r < 65:
				st.op = "next"
			case r < 88:
				st.op, st.key = "seek", seekKey()
			default:
				st.op = "rewind"
			}
			if st.op == "next" && n == 1 && !mi.Valid() && kinds["concat"] == 0 {
				// a single input is returned as is: Next on an exhausted child is outside the
				// child's contract (model: Panic).  skl.Iterator asserts (log.Fatalf: cannot be
				// observed here), table.Iterator and the slice cursor happen to tolerate it;
				// ConcatIterator dereferences its nil cursor: that panic is observed and compared.
				st.op = "rewind"
			}
			p := recoverPanic(func() {
				switch st.op {
				case "next":
					mi.Next()
				case "rewind":
					mi.Rewind()
				case "seek":
					mi.Seek(st.key)
				}
				st.o = c21Observe(mi)
			})
			if p {
				st.o = c21obs{panicked: true}
				panicked = true
			}
			steps = append(steps, st)
		}
		// ---- emit the case ----
		items := make([]string, len(steps))
		var opsJ []string
		for s, st := range steps {
			var opT string
			switch st.op {
			case "next":
				opT = "OpNext"
			case "rewind":
				opT = "OpRewind"
			case "seek":
				opT = fmt.Sprintf("OpSeek %s", B(st.key))
			}
			items[s] = fmt.Sprintf("(%s, %s)", opT, c21ObsTerm(inputs, st.o))
			opsJ = append(opsJ, fmt.Sprintf("%s:%x", st.op, st.key))
		}
		kind := "MergeRun"
		if malformed {
			kind = "MergeMalformed"
		} else if fullDrain {
			kind = "MergeDrain"
		}
		c.Case(kind, fmt.Sprintf("(MergeRun %s %s %s %s)", Bool(rev), c21InputsTerm(inputs), obs0, ListOf(items)),
			J{"rev": rev, "inputs": c21InputsJSON(inputs), "ops": opsJ, "kinds": kinds})
		if panicked {
			c.Count("panicked")
		}
		// ---- property oracle on well-formed inputs ----
		if malformed {
			continue
		}
		replay := J{"rev": rev, "inputs": c21InputsJSON(inputs), "kinds": kinds}
		ref := c21Reference(inputs, rev)
		mi.Rewind()
		got := c21Drain(mi, total+2)
		c.Oracle(c21Equal(got, ref), "merge-not-sorted-union-first-wins", "Rewind+Next* differs from the sorted union with earliest-input precedence", replay)
		// after exhaustion the iterator stays invalid under Next (MergeIterator only)
		if n >= 2 {
			mi.Next()
			c.Oracle(!mi.Valid(), "merge-valid-after-end", "Valid() after Next on an exhausted merge iterator", replay)
		}
		k := seekKey()
		var want []c21kv
		for _, e := range ref {
			cmp := y.CompareKeys(e.k, k)
			if (!rev && cmp >= 0) || (rev && cmp <= 0) {
				want = append(want, e)
			}
		}
		mi.Seek(k)
		got = c21Drain(mi, total+2)
		replay["seek"] = fmt.Sprintf("%x", k)
		c.Oracle(c21Equal(got, want), "merge-seek-wrong", "Seek(k)+Next* differs from the entries at or after (before, in reverse) k of the sorted union", replay)
	}
	return nil
}
